"""X02 (beyond the listed properties; supports C03 / C06 / C07) — trace validation of RenderContext against spec/ContextTrace.tla.

Trace sources: (i) the concretised programs of LoopNest.tla and Limits.tla rendered under instrumentation, (ii) the repository's own
test-suite run under instrumentation (pytest plugin vf/pytest_trace.py; the outcome of the tests must equal the guard-off baseline).
Every trace (one public render call) is replayed through ContextTrace.tla's Step action; a rejected trace is re-run with Diag=TRUE to
name the clause."""
from __future__ import annotations

import json
import os
import re
import subprocess
import sys
import tempfile
import xml.etree.ElementTree as ET

from ..core import Check, ROOT, fresh_repo_imports, seed
from ..tlcrun import run_tlc, run_many, gen_cfg, cleanup_gen, scratch_dir, MachineryError
from .. import harness, instrument
from . import c06, c07

PID = "X02"


def validate(traces, ck, name):
    """-> {index: [(line, clause, a, b)]} for rejected traces"""
    d = scratch_dir("ctx")
    path = os.path.join(d, "traces.json")
    try:
        with open(path, "w") as f:
            json.dump(traces, f)
        r = run_tlc("ContextTrace", "cfg/ContextTrace.cfg", workers=1, timeout=3000, env={"TRACE_FILE": path})
        ck.tlc("ContextTrace " + name, r)
        acc = {int(m.group(1)) - 1 for m in re.finditer(r'^<<"ACCEPT", (\d+)>>', r.out, re.M)}
        rejected = [i for i in range(len(traces)) if i not in acc]
        diags = {}
        if rejected:
            sub = [traces[i] for i in rejected[:200]]
            with open(path, "w") as f:
                json.dump(sub, f)
            r2 = run_tlc("ContextTrace", "cfg/ContextTrace_diag.cfg", workers=1, timeout=3000, env={"TRACE_FILE": path})
            for m in re.finditer(r'^<<"MISMATCH", (\d+), (\d+), "(\w+)", (.*)>>$', r2.out, re.M):
                diags.setdefault(rejected[int(m.group(1)) - 1], []).append((int(m.group(2)), m.group(3), m.group(4)))
            for i in rejected:
                diags.setdefault(i, [(0, "rejected", "")])
        return diags
    finally:
        import shutil
        shutil.rmtree(d, ignore_errors=True)


def family_traces(tier):
    """LoopNest and Limits programs rendered under instrumentation (in this process)."""
    rec = instrument.ContextRecorder()
    instrument.install_context(rec)
    import random
    rnd = random.Random(seed())
    try:
        jobs = [("LoopNest", "cfg/LoopNest_quick.cfg", dict(workers=1, timeout=3000)),
                ("Limits", gen_cfg("cfg/Limits.tmpl", dict(Family="output", MaxOps=4, MaxDepth=2, LSet="LSmall", MSet="MSmall", StrBase=c07.STRBASE, Extra="INVARIANT Emit"), "xo"),
                 dict(workers=1, timeout=3000)),
                ("Limits", gen_cfg("cfg/Limits.tmpl", dict(Family="namespace", MaxOps=4, MaxDepth=2, LSet="LSmall", MSet="MSmall", StrBase=c07.STRBASE, Extra="INVARIANT Emit"), "xn"),
                 dict(workers=1, timeout=3000)),
                ("Recursion", gen_cfg("cfg/Recursion.tmpl", dict(Templates='{"t1","t2"}', Depths="{0, 2}", Extra="INVARIANT Emit"), "xr"), dict(workers=1, timeout=3000))]
        rs = run_many(jobs, parallel=4)
    finally:
        cleanup_gen()
    nests = rs[0].emitted
    lims = rs[1].emitted
    cap = 4000 if tier == "quick" else 40000
    nests = nests if len(nests) <= cap else rnd.sample(nests, cap)
    lims = lims if len(lims) <= cap else rnd.sample(lims, cap)
    for i, c in enumerate(nests):
        src, templates, data = c06.concretize(c["prog"])
        env = harness.make_env(loop_limit=c["N"], templates=templates)
        rec.label = "LoopNest:" + src[:80]
        harness.run(env, src, data, "sync" if i % 2 else "async")
    nsl = [c for c in rs[2].emitted]
    nsl = nsl if len(nsl) <= cap else rnd.sample(nsl, cap)
    for i, c in enumerate(nsl):
        src, templates = c07.concretize(c)
        env = harness.make_env(templates=templates, ns_limit=c["M"] if c["M"] >= 0 else None)
        rec.label = "Limits-ns:" + src[:80]
        harness.run(env, src, {}, "sync" if i % 2 else "async")
    from . import c09
    for i, c in enumerate(rs[3].emitted):
        tm = c09.concretize(c["g"])
        env = harness.make_env(templates=tm, depth_limit=(3, 8, 30)[i % 3])
        rec.label = "Recursion:" + json.dumps(c["g"])[:80]
        harness.run(env, "{% include 't1' %}", {}, "sync" if i % 2 else "async")
    for i, c in enumerate(lims):
        src, templates = c07.concretize(c)
        env = harness.make_env(templates=templates, output_limit=c["L"] if c["L"] >= 0 else None, mode=("strict", "warn", "lax")[i % 3])
        rec.label = "Limits:" + src[:80]
        harness.run(env, src, {}, "sync" if i % 2 else "async")
    return rec.traces, rs


def corpus_traces():
    """Run the repository's tests with the recorder plugin; returns (traces, dropped, set of passed tests)."""
    repo = os.environ.get("VERIF_REPO", "/repo")
    with tempfile.TemporaryDirectory(dir=os.path.join(ROOT, ".scratch")) as d:
        out, x = os.path.join(d, "traces.json"), os.path.join(d, "j.xml")
        env = dict(os.environ, PYTHONPATH=ROOT + os.pathsep + repo, LIQUID_VERIF="1", VERIF_TRACE_OUT=out, PYTHONDONTWRITEBYTECODE="1")
        p = subprocess.run([sys.executable, "-m", "pytest", "-q", "-p", "vf.pytest_trace", "-p", "no:cacheprovider", "--timeout=900",
                            "--continue-on-collection-errors", "--junitxml=" + x], cwd=repo, env=env, capture_output=True, text=True)
        if not os.path.exists(out):
            raise MachineryError("instrumented test run produced no traces:\n" + (p.stdout + p.stderr)[-2000:])
        data = json.load(open(out))
        passed = set()
        for tc in ET.parse(x).getroot().iter("testcase"):
            if not any(c.tag in ("failure", "error", "skipped") for c in tc):
                passed.add(tc.get("classname") + "::" + tc.get("name"))
    return data["traces"], data["dropped"], passed


def run(tier: str) -> int:
    fresh_repo_imports()
    os.makedirs(os.path.join(ROOT, ".scratch"), exist_ok=True)
    ck = Check(PID, tier)
    ck.cov["rule"] = ("ContextTrace.tla: every recorded render (scope pushes/pops, loops, carried iterations, limit checks, context copies, buffers, writes, "
                      "assignments with the measured size of the locals, error handling, end) replayed through the specification; sources: LoopNest.tla and Limits.tla programs, and the repository's own "
                      "test-suite under the LIQUID_VERIF-guarded recorder; clauses Balanced, CheckOK, GhostOK, CopyOK, BufOK, WriteOK, NamespaceOK, CopyNsOK, DepthOK, ErrorOK")
    traces, rs = family_traces(tier)
    instrument.unwrap_all()
    ck.tlc("LoopNest (trace source)", rs[0])
    ck.tlc("Limits (trace source)", rs[1])
    fam = [{k: t[k] for k in ("N", "L", "M", "D", "mode", "ev")} for t in traces]
    diags = validate(fam, ck, "families")
    for i, t in enumerate(traces):
        ck.case(("family", t["label"], i))
        ck.validated()
    for i, dg in sorted(diags.items()):
        l, clause, rest = dg[0]
        ck.fail(f"ContextTrace.tla!{clause} rejects event {l} of a recorded render ({traces[i]['label']})",
                {"label": traces[i]["label"], "event": traces[i]["ev"][l - 1] if 0 < l <= len(traces[i]["ev"]) else None, "mismatches": dg[:5],
                 "N": traces[i]["N"], "L": traces[i]["L"], "mode": traces[i]["mode"]}, sig=f"family:{clause}")
    ctraces, dropped, passed = corpus_traces()
    base = set(json.load(open("/root/.vp/BASELINE.json"))["stable_pass"])
    missing = sorted(base - passed)
    if missing:
        raise MachineryError(f"the instrumented test run does not reproduce the baseline: {len(missing)} tests missing, e.g. {missing[:3]}")
    ck.cov["corpus"] = {"renders_recorded": len(ctraces), "dropped_long_or_interleaved": dropped, "tests_passing_under_instrumentation": len(passed)}
    cor = [{k: t[k] for k in ("N", "L", "M", "D", "mode", "ev")} for t in ctraces]
    if cor:
        diags = validate(cor, ck, "repository test-suite")
        for i, t in enumerate(ctraces):
            ck.case(("corpus", t["label"], i), nontrivial=len(t["ev"]) > 6)
            ck.validated()
        for i, dg in sorted(diags.items()):
            l, clause, rest = dg[0]
            ck.fail(f"ContextTrace.tla!{clause} rejects event {l} of a render made by {ctraces[i]['label']}",
                    {"test": ctraces[i]["label"], "event": ctraces[i]["ev"][l - 1] if 0 < l <= len(ctraces[i]["ev"]) else None, "mismatches": dg[:5],
                     "N": ctraces[i]["N"], "L": ctraces[i]["L"], "mode": ctraces[i]["mode"]}, sig=f"corpus:{clause}:{ctraces[i]['label'].split('::')[0]}")
    if traces:
        ck.sample({"label": traces[0]["label"], "events": traces[0]["ev"][:12]})
    ck.assumptions += ["only client-agnostic clauses: tests use custom tags, filters, drops and context subclasses", "renders interleaved by asyncio.gather / threads and renders of more than 4000 events are not validated"]
    return ck.finish()


def replay(path):
    return 0
