"""X01 (beyond the listed properties) — per-render state of cycle / ifchanged / increment / decrement / case (spec/TagState.tla)."""
from __future__ import annotations

from ..core import Check, fresh_repo_imports
from ..tlcrun import run_tlc
from .. import harness, par

PID = "X01"
CASES = {"w1": "{% when 1 %}W1", "w11": "{% when 1, 1 %}W1", "w23e": "{% when 2, 3 %}W23{% else %}E", "ew1": "{% else %}E{% when 1 %}W1",
         "w1ew2e": "{% when 1 %}W1{% else %}E1{% when 2 %}W2{% else %}E2"}
ITEMS = {"u2": "'a', 'b'", "u3": "'a', 'b', 'c'", "g2": "'g': 'x', 'y'", "g3": "'g': 'p', 'q', 'r'"}


def tag(o):
    if o["op"] == "cycle":
        return "{% cycle " + ITEMS[o["a"]] + " %}"
    if o["op"] == "ifchanged":
        body = {"const": "K", "idx": "{{ i }}", "half": "{{ i | divided_by: 2 }}"}[o["a"]]
        return "{% ifchanged %}" + body + "{% endifchanged %}"
    if o["op"] == "incr":
        return "{% increment n %}"
    if o["op"] == "decr":
        return "{% decrement n %}"
    return "{% case i %}" + CASES[o["a"]] + "{% endcase %}"


def concretize(case):
    templates, parts = {}, []
    for j, o in enumerate(case["prog"]):
        t = tag(o)
        if o["via"] == "direct":
            parts.append(f"<{t}>")
        else:
            templates[f"p{j}"] = t
            kw = ", i: i" if o["via"] == "render" else ""
            parts.append(f"<{{% {o['via']} 'p{j}'{kw} %}}>")
    return "{% for i in (1..3) %}" + "".join(parts) + "{% endfor %}", templates


def replay_one(case):
    import re
    src, templates = concretize(case)
    env = harness.make_env(templates=templates)
    res = []
    for how in ("sync", "async"):
        o = harness.run(env, src, {}, how)
        got = re.findall(r"<([^<>]*)>", o["out"]) if "out" in o else None
        res.append((how, None if got == case["out"] else (got if got is not None else o["err"])))
    return src, templates, res


def run(tier: str) -> int:
    fresh_repo_imports()
    ck = Check(PID, tier)
    ck.cov["rule"] = ("TagState.tla: every loop body of <=2 (thorough 3) stateful tags (cycle unnamed / named with 2 or 3 items, ifchanged of a constant / the index / "
                      "index div 2, increment, decrement, five case/when/else layouts), each directly, in an included partial or in a rendered partial, run "
                      "for 3 iterations; what each tag prints in each iteration must equal the specification's")
    r = run_tlc("TagState", f"cfg/TagState_{tier}.cfg", workers=1, timeout=3000)
    ck.tlc("TagState_" + tier, r)
    if r.violated:
        ck.fail(f"TagState.tla {r.violated} violated", {"tlc": r.out[-3000:]})
        return ck.finish()
    for case, (src, templates, res) in zip(r.emitted, par.pmap(replay_one, r.emitted, chunk=128)):
        ck.case(src)
        ck.validated()
        for how, bad in res:
            if bad is not None:
                ck.fail(f"stateful tags print {bad}, TagState.tla says {case['out']}", {"source": src, "partials": templates, "mode": how, "expected": case["out"]},
                        sig="tagstate:" + "+".join(f"{o['via']}:{o['op']}:{o['a']}" for o in case["prog"]))
                break
    if r.emitted:
        c = r.emitted[len(r.emitted) // 2]
        ck.sample({"source": concretize(c)[0], "expected": c["out"]})
    ck.assumptions += ["not one of the listed properties: the semantics are the engine's documented behaviour (tag reference), calibrated on the unchanged tree"]
    return ck.finish()


def replay(path):
    return 0
