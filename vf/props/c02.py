"""C02 — only Liquid errors escape parsing and rendering (spec/Exits.tla, ExitCells.tla, ExitMonitor.tla).

Exits.tla is the exit automaton (ok / LiquidError, no other exit) and defines the input space; ExitCells.tla emits it:
every registered filter x kind of left value x kinds of 0/1/2 arguments, tag-argument carriers x operand kinds, every source string
of <= MaxLen markup characters; plus BlockParser.tla token sequences.  Each input is parsed and rendered under STRICT, WARN and
LAX, sync and async; every recorded exit is judged by ExitMonitor.tla."""
from __future__ import annotations

import json
import os
import random
import re
import shutil

from ..core import Check, fresh_repo_imports, seed
from ..tlcrun import run_tlc, run_many, gen_cfg, cleanup_gen, scratch_dir, MachineryError
from .. import harness, par

PID = "C02"
MODES = ("strict", "warn", "lax")
PARTIALS = {"p": "[{{ v }}]", "abc": "[abc]", "12": "[12]", "base": "B{% block b %}b{% endblock %}"}
LITERAL = {"nil": "nil", "true": "true", "false": "false", "zero": "0", "neg": "-1", "float": "1.5", "empty": "''", "abc": "'abc'",
           "digits": "'12'", "percent": "'100% %s %(x)s'", "exp": "'1e999'", "nanstr": "'nan'", "huge": "1" + "0" * 30}


def value(kind):
    return {"nil": None, "true": True, "false": False, "zero": 0, "neg": -1, "huge": 10 ** 30, "float": 1.5, "inf": float("inf"),
            "nan": float("nan"), "empty": "", "abc": "abc", "digits": "12", "exp": "1e999", "nanstr": "nan", "percent": "100% %s %(x)s",
            "badb64": "!!!", "b64bin": "/w==", "nonascii": "€é", "manydigits": "9" * 5000, "list": [1, "a"],
            "nested": [[1, [2]], [3]], "dict": {"a": 1, "b": "x"}, "dicts": [{"a": 1}, {"b": 2}], "strs": ["b", "a", ""],
            "mixed": [1, "a", None, [2], {"a": 1}, 1.5], "range": range(1, 4), "date": "2020-01-01 10:00", "fmt": "%Y %Z %s %-d %Q",
            "neghuge": -(10 ** 5000), "tuple": (1, 2), "deep": {"a": {"b": [1, {"c": 2}]}}, "ts": 10 ** 17, "tsstr": "100000000000000000"}[kind]


def bind(data, name, kind):
    if kind != "undefined":
        data[name] = value(kind)


def filter_source(cell, variant):
    data = {}
    bind(data, "x", cell["left"])
    names = []
    for i, a in enumerate(cell["args"], 1):
        if variant and a in LITERAL:
            names.append(LITERAL[a])
        else:
            bind(data, f"a{i}", a)
            names.append(f"a{i}")
    left = LITERAL[cell["left"]] if variant and cell["left"] in LITERAL else "x"
    args = (": " + ", ".join(names)) if names else ""
    if variant == 2 and names:         # keyword form for filters that take keyword arguments
        args = ": " + ", ".join(f"{k}: {n}" for k, n in zip(("allow_false", "group_separator"), names))
    return f"{{{{ {left} | {cell['f']}{args} }}}}|{{% assign z = {left} | {cell['f']}{args} %}}{{{{ z | size }}}}", data


def tag_source(cell, variant=0):
    src, data = _tag_source(cell)
    if variant == 1:      # operands written as LITERALS where the kind can be written down (a quoted 'abc' as a loop offset ...)
        for name in ("x", "y"):
            if cell[name] in LITERAL:
                src = re.sub(r"(?<![\w'%])" + name + r"(?![\w'])", LITERAL[cell[name]], src)
    return src, data


def _tag_source(cell):
    data = {"arr": [1, 2, 3]}
    bind(data, "x", cell["x"])
    bind(data, "y", cell["y"])
    T = "T{% else %}F"
    src = {
        "for": "{% for v in x %}{{ v }}{% else %}E{% endfor %}", "forlimit": "{% for v in arr limit: x %}{{ v }}{% endfor %}",
        "foroffset": "{% for v in arr offset: x %}{{ v }}{% endfor %}", "forboth": "{% for v in x limit: y offset: y reversed %}{{ v }}{% endfor %}",
        "tablerow": "{% tablerow v in x %}{{ v }}{% endtablerow %}", "tablerowcols": "{% tablerow v in arr cols: x %}{{ v }}{% endtablerow %}",
        "tablerowlimit": "{% tablerow v in arr limit: x offset: y cols: y %}{{ v }}{% endtablerow %}",
        "range": "{% for v in (x..y) %}{{ v }}{% endfor %}", "rangeboth": "{% assign r = (y..x) %}{{ r | size }}{{ r | first }}",
        "cycle": "{% cycle x, y %}{% cycle x, y %}", "cyclegroup": "{% cycle x: 'a', 'b' %}{% cycle y: 'a', 'b' %}",
        "case": "{% case x %}{% when y %}W{% when 1, 'abc' %}V{% else %}E{% endcase %}", "when": "{% case y %}{% when x, 1 %}W{% else %}E{% endcase %}",
        "lt": f"{{% if x < y %}}{T}{{% endif %}}{{% if y > x %}}{T}{{% endif %}}", "le": f"{{% if x <= y %}}{T}{{% endif %}}{{% if y >= x %}}{T}{{% endif %}}",
        "eq": f"{{% if x == y %}}{T}{{% endif %}}{{% if x != y %}}{T}{{% endif %}}", "contains": f"{{% if x contains y %}}{T}{{% endif %}}",
        "containsr": f"{{% if y contains x %}}{T}{{% endif %}}", "and": f"{{% if x and y or x %}}{T}{{% endif %}}",
        "index": "{{ arr[x] }}", "indexr": "{{ x[y] }}{{ x[y].a }}", "dot": "{{ x.a.b }}{{ x.a[0] }}", "size": "{{ x.size }}{{ x | size }}",
        "first": "{{ x.first }}{{ x.last }}{{ x[0] }}{{ x[-1] }}", "include": "{% include x %}", "includefor": "{% include 'p' for x as v %}",
        "render": "{% render 'p', v: x %}{% render 'p' with x as v %}", "renderfor": "{% render 'p' for x as v %}",
        "with": "{% with v: x, w: y %}{{ v }}{{ w }}{% endwith %}", "increment": "{% increment n %}{% decrement n %}{{ n | plus: x }}",
        "assign": "{% assign z = x %}{{ z }}{{ z.a }}", "capture": "{% capture z %}{{ x }}{% endcapture %}{{ z }}", "echo": "{% echo x %}{% echo y %}",
        "ternary": "{{ x if y else 'n' }}{{ 'a' if x else y | upcase }}", "unless": f"{{% unless x %}}{T}{{% endunless %}}",
        "ifchanged": "{% ifchanged %}{{ x }}{% endifchanged %}{% ifchanged %}{{ x }}{% endifchanged %}",
        "translate": "{% translate v: x %}Hello {{ v }}{% endtranslate %}",
        "translatecount": "{% translate count: x, v: y %}one {{ v }}{% plural %}many {{ count }}{% endtranslate %}",
        "macrodefault": "{% macro m v: x, w %}{{ v }}{{ w }}{% endmacro %}{% call m %}{% call m y, y, y, k: y %}",
        "callarg": "{% macro m v %}{{ v }}{{ args }}{{ kwargs }}{% endmacro %}{% call m x, y, k: y %}",
        "liquid": "{% liquid\n assign z = x | default: y\n echo z\n for v in x\n echo v\n endfor\n%}",
        "extends": "{% extends x %}{% block b %}c{% endblock %}", "block": "{% extends 'base' %}{% block b %}{{ x }}{{ block.super }}{% endblock %}",
        "translatecontext": "{% translate context: x %}Hello{% endtranslate %}{{ 'Hello' | t: x }}{{ 'Hello' | pgettext: x }}",
        "ifblank": f"{{% if x == blank %}}{T}{{% endif %}}{{% if blank == x %}}{T}{{% endif %}}",
        "ifempty": f"{{% if x == empty %}}{T}{{% endif %}}{{% if empty != x %}}{T}{{% endif %}}",
    }[cell["c"]]
    return src, data


def deep_source(cell):
    k, d = cell["kind"], cell["depth"]
    return {
        "index": "{{ " + "a[" * d + "0" + "]" * d + " }}", "and": "{% if " + " and ".join(["a"] * d) + " %}x{% endif %}",
        "or": "{% if " + " or ".join(["b"] * d) + " %}x{% endif %}", "not": "{% if " + "not " * d + "a %}x{% endif %}",
        "paren": "{% if " + "(" * d + "a" + ")" * d + " %}x{% endif %}", "filterchain": "{{ a" + " | upcase" * d + " }}",
        "dots": "{{ a" + ".b" * d + " }}", "ternary": "{{ " + "a if a else " * d + "a }}",
        "ifnest": "{% if a %}" * d + "x" + "{% endif %}" * d, "fornest": "{% for i in (1..1) %}" * d + "x" + "{% endfor %}" * d,
        "rangenest": "{% for i in " + "(1.." * d + "2" + ")" * d + " %}x{% endfor %}", "concat": "{{ a" + " | append: a" * d + " }}",
        "whenlist": "{% case a %}{% when " + ", ".join(["1"] * d) + " %}x{% endcase %}", "args": "{{ a | default: " + ", ".join(["a"] * d) + " }}",
    }[k], {"a": "A", "b": False}


def exits(src, data, flags=("ternary_expressions", "logical_not_operator", "logical_parentheses")):
    """-> [(mode, how, st, liquid, phase, msg)] : every exit of parse+render of one input"""
    out = []
    for mode in MODES:
        env = harness.make_env(templates=PARTIALS, mode=mode, flags=flags)
        for how in ("sync", "async"):
            o = harness.run(env, src, data, how)
            if "out" in o:
                out.append((mode, how, "ok", True, "render", ""))
            else:
                out.append((mode, how, o["err"], bool(o.get("liquid")), o.get("phase", "render"), o.get("msg", "")[:160]))
                if o.get("phase") == "parse":
                    out.append((mode, "async", o["err"], bool(o.get("liquid")), "parse", ""))
                    break
    return out


def replay_cell(job):
    cell, variant = job
    if cell["part"] == "filter":
        src, data = filter_source(cell, variant)
    elif cell["part"] == "tagarg":
        src, data = tag_source(cell, variant)
    elif cell["part"] == "source":
        src, data = "".join(cell["s"]), {"a": "A"}
    elif cell["part"] == "deep":
        src, data = deep_source(cell)
    else:
        from . import c21
        src, data = c21.concretize(cell["seq"]), {"v": "V"}
    return src, exits(src, data)


def key_of(cell):
    if cell["part"] == "filter":
        return f"filter:{cell['f']}"
    if cell["part"] == "tagarg":
        return f"tag:{cell['c']}"
    if cell["part"] == "deep":
        return f"deep:{cell['kind']}:{cell['depth']}"
    return cell["part"]


def judge(observations):
    d = scratch_dir("exit")
    path = os.path.join(d, "obs.json")
    try:
        with open(path, "w") as f:
            json.dump(observations, f)
        r = run_tlc("ExitMonitor", "cfg/ExitMonitor.cfg", workers=1, timeout=3000, env={"TRACE_FILE": path})
        acc = {int(m.group(1)) - 1 for m in re.finditer(r'^<<"ACCEPT", (\d+)>>', r.out, re.M)}
        rej = {int(m.group(1)) - 1: m.group(2) for m in re.finditer(r'^<<"REJECT", (\d+), "(\w+)">>', r.out, re.M)}
        if len(acc) + len(rej) != len(observations):
            raise MachineryError(f"ExitMonitor.tla judged {len(acc) + len(rej)} of {len(observations)} observations:\n" + r.out[-2000:])
        return rej, r
    finally:
        shutil.rmtree(d, ignore_errors=True)


def run(tier: str) -> int:
    fresh_repo_imports()
    ck = Check(PID, tier)
    rnd = random.Random(seed())
    q = tier == "quick"
    ck.cov["rule"] = ("Exits.tla: exit automaton (ok / LiquidError only) checked by TLC; ExitCells.tla emits every registered filter (82 + an unknown one) x 32 kinds "
                      "of left value x 14 kinds of each of 0/1/2 arguments (values passed as variables and, where expressible, as literals), 45 tag / "
                      "expression carriers x 32 x 14 operand kinds, every source string of <=%d characters over {{ %% }} - # space a |, BlockParser.tla token "
                      "sequences; each input parsed+rendered under STRICT, WARN, LAX, sync and async; every exit judged by ExitMonitor.tla" % (4 if q else 6))
    from . import c21
    try:
        parts = ["filter0", "filter1", "filter2", "tagarg", "source", "deep"]
        jobs = [("ExitCells", gen_cfg("cfg/ExitCells.tmpl", dict(Part=p, MaxLen=4 if q else 6), p), dict(workers=1, timeout=3000, extra=["-maxSetSize", "4000000"]))
                for p in parts]
        jobs.append(("Exits", "cfg/Exits.cfg", dict(workers=8, timeout=3000)))
        jobs.append(("BlockParser", gen_cfg("cfg/BlockParser.tmpl", dict(Alphabet=c21.ALPHABETS["mixed"][0], MaxLen=3 if q else 5, NestLimit=3, Extra="INVARIANT Emit"), "bp"),
                     dict(workers=1, timeout=3000, extra=["-maxSetSize", "4000000"])))
        rs = run_many(jobs, parallel=8)
    finally:
        cleanup_gen()
    cells = []
    caps = dict(filter0=10 ** 9, filter1=9000 if q else 10 ** 9, filter2=7000 if q else 45000, tagarg=9000 if q else 10 ** 9, source=10 ** 9 if q else 90000, deep=10 ** 9)
    for p, r in zip(parts, rs):
        ck.tlc("ExitCells " + p, r)
        cs = r.emitted
        if len(cs) > caps[p]:
            ck.cov.setdefault("sampled", {})[p] = [caps[p], len(cs)]
            # stratified: one-argument filter cells whose argument is the >4300-digit integer are rare and all kept (the compact defect lived there)
            keep = [c for c in cs if p == "filter1" and "neghuge" in (c.get("args") or [])]
            rest = [c for c in cs if not (p == "filter1" and "neghuge" in (c.get("args") or []))]
            cs = keep + rnd.sample(rest, max(0, caps[p] - len(keep)) if len(keep) < caps[p] // 2 else caps[p] // 2)
        cells += cs
    ck.tlc("Exits automaton", rs[6])
    if rs[6].violated:
        ck.fail(f"Exits.tla {rs[6].violated} violated", {"tlc": rs[6].out[-2000:]})
    ck.tlc("BlockParser mixed", rs[7])
    cells += [{"part": "tokens", "seq": c["seq"]} for c in rs[7].emitted]
    jobs = [(c, i % 3) for i, c in enumerate(cells)]
    observations, meta = [], []
    for (cell, variant), (src, ex) in zip(jobs, par.pmap(replay_cell, jobs, chunk=128)):
        ck.case((cell["part"], src, json.dumps({k: v for k, v in cell.items() if k in ("left", "args", "x", "y")}, sort_keys=True)),
                nontrivial=any(e[2] != "ok" for e in ex))
        ck.validated()
        for mode, how, st, liquid, phase, msg in ex:
            observations.append({"st": st, "liquid": liquid, "phase": phase})
            meta.append((cell, variant, src, mode, how, msg))
    rej, rm = judge(observations)
    ck.tlc("ExitMonitor", rm)
    seen = set()
    for i, exc in sorted(rej.items()):
        cell, variant, src, mode, how, msg = meta[i]
        operands = [cell.get("left"), cell.get("x"), cell.get("y")] + list(cell.get("args") or [])
        sig = f"{key_of(cell)}:{exc}:{'neghuge' if 'neghuge' in operands else cell.get('left', cell.get('x', ''))}"    # the >4300-digit integer, wherever it stands in the cell
        detail = {"source": src, "cell": cell, "variant": variant, "mode": mode, "how": how, "exception": exc, "message": msg}
        ck.fail(f"{exc} escapes from {key_of(cell)} ({mode}, {how}): {msg[:80]}", detail, sig=sig)
    ck.cov["observations"] = len(observations)
    for j in (0, len(meta) // 2, len(meta) - 1):
        if meta:
            cell, variant, src, mode, how, msg = meta[j]
            ck.sample({"source": src, "cell": cell, "mode": mode, "api": how, "exit": observations[j]["st"]})
    ck.assumptions += ["value kinds are those listed in Exits.tla!Vals; custom filters/tags/drops are out of scope",
                       "BaseException subclasses raised by the harness's own alarms are not exits of the engine"]
    return ck.finish()


def replay(path):
    fresh_repo_imports()
    d = json.load(open(path))["detail"]
    print(replay_cell((d["cell"], d["variant"])))
    return 0
