"""C14 — variables resolve to their innermost binding (spec/Scope.tla, spec/Paths.tla).
Also the engine of C15 (isolation of rendered partials and macros): see c15.py.

Scope.tla lets the *template* issue binding constructs in any well-nested order; after every step every name is read.
Each emitted program carries, per step, what every read must print.  Here the program is turned into Liquid source
(partials in a DictLoader, macros defined next to their call), rendered sync+async, and the reads are compared."""
from __future__ import annotations

import random
import re

from ..core import Check, fresh_repo_imports, seed
from ..tlcrun import run_many, gen_cfg, cleanup_gen
from .. import harness, par

PID = "C14"
COPY_OPS = ("render", "render0", "call", "callnoarg")
READ = re.compile(r"\[([^\[\]]*)\]|<(-?\d+)>")


def _reads(names, variant):
    loops = ";fl={{ forloop.length }};pl={{ forloop.parentloop.length }}"
    if variant % 2:
        return "[" + ";".join(f"{n}={{% echo {n} %}}" for n in names) + loops + "]"
    return "[" + ";".join(f"{n}={{{{ {n} }}}}" for n in names) + loops + "]"


def _lit(v):
    return "nil" if v == "nil" else f'"{v}"'


def concretize(case, variant=0, reads="all"):
    """-> (source, templates, data, kwargs for from_string, env globals).  reads="leaf": only the shared partial `leaf` reads"""
    prog = case["prog"]
    names = sorted(prog[0]["reads"])
    RL = _reads(names, variant)
    R = RL if reads == "all" else ""
    templates, data = {}, {}
    nleaf = [0]
    named = []          # step index of the partial that was named after the second variable (C19)

    def build(i):
        """source of steps i.. until the matching close; returns (src, index of the close (or end), unwind).
        unwind > 0: a break/continue abandoned this level; `unwind` more enclosing constructs end without running on"""
        out = []
        while i < len(prog):
            r = prog[i]
            op, n, v = r["op"], r["n"], r["v"]
            k = i + 1                      # the spec's step index: unique suffix for nil-valued binders
            if op == "close":
                return "".join(out), i, 0
            if op == "break":
                out.append("{% break %}" if variant % 2 == 0 else "{% continue %}")
                return "".join(out), i, int(n)
            if op == "assign":
                out.append(f"{{% assign {n} = {_lit(v)} %}}" + R)
                i += 1
            elif op in ("incleaf", "renderleaf"):
                templates["leaf"] = RL
                nleaf[0] += 1
                if op == "incleaf" and reads == "leaf" and variant % 2 == 1 and nleaf[0] > 1:
                    # C19: from its second use on the leaf is reached THROUGH another shared partial (include is transparent for scope):
                    # an analysis that remembers partials it has seen must remember them together with what they load
                    templates["page"] = '{% include "leaf" %}'
                    out.append('{% include "page" %}')
                else:
                    out.append('{% include "leaf" %}' if op == "incleaf" else '{% render "leaf" %}')
                i += 1
            elif op == "capture":
                out.append(f"{{% capture {n} %}}{v}{{% endcapture %}}" + R)
                i += 1
            elif op == "incr":
                out.append(f"<{{% increment {n} %}}>" + R)
                i += 1
            elif op == "decr":
                out.append(f"<{{% decrement {n} %}}>" + R)
                i += 1
            else:
                body, j, unwind = build(i + 1)
                closed = j < len(prog)
                body = R + body
                # reads after the construct: after a normal close, or - when a break ended exactly this loop - the break's reads
                tail = R if closed and unwind <= 1 else ""
                tag = f"{op}{k}"
                if op in ("for", "tablerow"):
                    data["_" + tag] = [None if v == "nil" else v]
                    end = "endfor" if op == "for" else "endtablerow"
                    out.append(f"{{% {op} {n} in _{tag} %}}{body}{{% {end} %}}{tail}")
                elif op == "with":
                    out.append(f"{{% with {n}: {_lit(v)} %}}{body}{{% endwith %}}{tail}")
                elif op in ("include", "render"):
                    tname = "t_" + tag
                    if reads == "leaf" and len(names) > 1 and variant % 3 == 1 and names[1] not in templates and n == names[0]:
                        # C19: a partial NAMED like another variable, bound `with .. as <alias>`: only the alias is bound inside,
                        # the partial's own base name stays a global there
                        tname = names[1]
                        body = RL + body          # this partial reads too (its own base name among the rest)
                        named.append(i)
                    templates[tname] = body
                    form = variant % 3
                    if form == 2 and op == "render":
                        form = 0        # `render .. for .. as ..` also binds a forloop drop inside the partial (documented): not this family
                    if form == 0:
                        out.append(f'{{% {op} "{tname}", {n}: {_lit(v)} %}}{tail}')
                    elif form == 1 and v != "nil":
                        if variant % 2 == 0:
                            # the bound value is a LOCAL of the caller (no render data needed: with no globals at all the namespace the tag
                            # builds is empty when the context is copied - the bound variable must still arrive)
                            out.append(f'{{% assign _s_{tag} = {_lit(v)} %}}{{% {op} "{tname}" with _s_{tag} as {n} %}}{tail}')
                        else:
                            data["_s_" + tag] = v
                            out.append(f'{{% {op} "{tname}" with _s_{tag} as {n} %}}{tail}')
                    elif form == 2:
                        data["_" + tag] = [None if v == "nil" else v]
                        out.append(f'{{% {op} "{tname}" for _{tag} as {n} %}}{tail}')
                    else:
                        out.append(f'{{% {op} "{tname}", {n}: nil %}}{tail}')
                elif op in ("include0", "render0"):
                    templates["t_" + tag] = body
                    out.append(f'{{% {op[:-1]} "t_{tag}" %}}{tail}')
                elif op == "call":
                    arg = _lit(v) if variant % 2 == 0 else f"{n}: {_lit(v)}"
                    out.append(f"{{% macro m_{tag} {n} %}}{body}{{% endmacro %}}{{% call m_{tag} {arg} %}}{tail}")
                elif op == "callnoarg":
                    out.append(f"{{% macro m_{tag} {n} %}}{body}{{% endmacro %}}{{% call m_{tag} %}}{tail}")
                else:
                    raise ValueError(op)
                if unwind > 1:
                    return "".join(out), j, unwind - 1
                i = j + 1
        return "".join(out), i, 0

    src, _, _ = build(0)
    glob = set(case["glob"])
    layer = lambda L: {n: f"{L}:{n}" for n in names} if L in glob else {}
    data.update(layer("rargs"))
    concretize.named_step = named[0] if named else None
    return src, templates, data, {"matter": layer("matter") or None, "globals": layer("tglobals") or None}, layer("eglobals") or None


def expected(case):
    """flat list of what must be printed, in step order: ('c', text) for counters, ('r', {name: (value, layer)}) for reads"""
    exp = []
    prog = case["prog"]
    last = len(prog) - 1
    for i, r in enumerate(prog):
        if case["status"] != "ok" and i == last:
            break
        if r["op"] in ("incr", "decr"):
            exp.append(("c", r["v"], i))
        d = {n: ("" if x["v"] == "nil" else x["v"], x["layer"]) for n, x in r["reads"].items()}
        d["fl"] = ("1" if r["fl"] else "", "forloop")
        d["pl"] = ("1" if r["pl"] else "", "forloop.parentloop")
        exp.append(("r", d, i))
    return exp


def observe(text):
    obs = []
    for m in READ.finditer(text):
        if m.group(2) is not None:
            obs.append(("c", m.group(2)))
        else:
            d = {}
            for kv in m.group(1).split(";"):
                k, _, val = kv.partition("=")
                d[k] = val
            obs.append(("r", d))
    return obs


_QUOTED = re.compile(r"'[^']*'")
_REFS: dict = {}


def debug_refs(names):
    """What an environment with DebugUndefined prints for a MISSING name where no caller binds anything: at the top level, inside a rendered
    partial, inside a macro body (unbound name / parameter called without a value).  The wording is a diagnostic no statement fixes; only that
    it does not depend on the caller does (C15).  Quoted words (names) are blanked before comparing."""
    refs = {}
    exprs = {n: n for n in names}
    exprs.update({"fl": "forloop.length", "pl": "forloop.parentloop.length"})
    for n, x in exprs.items():
        if n in _REFS:
            refs[n] = _REFS[n]
            continue
        env = harness.make_env(templates={"r_": "{{ " + x + " }}"}, undefined="DebugUndefined")
        texts = set()
        srcs = ["{{ " + x + " }}", "{% render 'r_' %}", "{% include 'r_' %}", "{% macro m_ %}{{ " + x + " }}{% endmacro %}{% call m_ %}"]
        if n == x:
            srcs.append("{% macro m_ " + n + " %}{{ " + n + " }}{% endmacro %}{% call m_ %}")
        if n == "pl":
            srcs += ["{% for i_ in (1..1) %}" + y + "{% endfor %}" for y in srcs[:3]]      # a loop without a parent loop
        for src in srcs:
            o = harness.run(env, src, {}, "sync")
            if "out" in o:
                texts.add(_QUOTED.sub("''", o["out"]))
        refs[n] = _REFS[n] = texts
    return refs


def judge(case, outcome, refs=None):
    """-> None or (step index, message)"""
    if case["status"] != "ok":
        if outcome.get("err") != case["status"]:
            return len(case["prog"]) - 1, f"expected {case['status']}, observed {outcome.get('err', 'output ' + repr(outcome.get('out'))[:80])}"
        return None
    if "out" not in outcome:
        return 0, "render raised " + outcome["err"]
    exp, obs = expected(case), observe(outcome["out"])
    if len(exp) != len(obs):
        return 0, f"{len(obs)} observations printed, {len(exp)} expected"
    for e, o in zip(exp, obs):
        if e[0] != o[0]:
            return e[2], "counter/read order differs"
        if e[0] == "c":
            if e[1] != o[1]:
                return e[2], f"counter printed {o[1]}, specification says {e[1]}"
            continue
        for n, (v, layer) in e[1].items():
            if layer == "outerargs":
                continue      # arguments of an enclosing render seen from a nested render: not fixed by the statements (DESIGN §6)
            if refs is not None and v == "" and n in refs and _QUOTED.sub("''", o[1].get(n) or "") in refs[n]:
                continue      # DebugUndefined: the diagnostic for a missing name, the same one a caller without any binding gets
            if o[1].get(n) != v:
                return e[2], f"step {e[2]} ({case['prog'][e[2]]['op']}): {n} reads {o[1].get(n)!r}, specification says {v!r} (layer {layer})"
    return None


def in_copy(case, step):
    """is step `step` inside (or the close of) a render / macro call?"""
    depth, stack = 0, []
    for i, r in enumerate(case["prog"][: step + 1]):
        if r["op"] == "close":
            top = stack.pop()
            if i == step:
                return top in COPY_OPS or any(s in COPY_OPS for s in stack)
        elif r["op"] == "break":
            for _ in range(int(r["n"])):
                stack.pop()
        elif r["op"] == "renderleaf" and i == step:
            return True
        elif r["op"] not in ("assign", "capture", "incr", "decr", "incleaf", "renderleaf"):
            stack.append(r["op"])
    return any(s in COPY_OPS for s in stack)


def replay_one(job):
    case, variant = job
    src, templates, data, kw, eglob = concretize(case, variant)
    via_loader = variant % 2 == 1 and not kw.get("matter")
    if via_loader:
        # the main template comes from a CACHING loader and was requested before with OTHER template globals: the template globals of
        # THIS request are the ones in force (render arguments > front matter > template globals > environment globals)
        from liquid import CachingDictLoader
        names = sorted(case["prog"][0]["reads"])
        env = harness.make_env(loader=CachingDictLoader(dict(templates, main_=src)), globals=eglob)
        env.get_template("main_", globals={n: "stale:" + n for n in names})
    else:
        env = harness.make_env(templates=templates, globals=eglob, **({"undefined": "DebugUndefined"} if variant % 3 == 2 else {}))
    # every third program (not through the caching loader): missing names print DebugUndefined's diagnostic instead of nothing - what a
    # partial prints for a name it does not have must not depend on whether the caller has it
    refs = debug_refs(sorted(case["prog"][0]["reads"])) if (variant % 3 == 2 and not via_loader) else None
    res = []
    for how in ("sync", "async"):
        try:
            if via_loader:
                t = env.get_template("main_", globals=kw.get("globals"))
            else:
                t = env.from_string(src, **{k: v for k, v in kw.items() if v})
        except Exception as e:
            res.append((how, (0, "parse failed: " + repr(e)[:200])))
            continue
        o = harness.render(t, data, how)
        res.append((how, judge(case, o, refs)))
    return src, templates, res


def tlc_jobs(tier):
    def job(tag, **kw):
        p = dict(Names='{"a"}', MaxOps=4, MaxDepth=3, GlobalSets="GlobalsNone", NilVals="FALSE", Interrupts="FALSE", Leaves="FALSE", Extra="INVARIANT Emit")
        p.update(kw)
        return ("Scope", gen_cfg("cfg/Scope.tmpl", p, tag), dict(workers=1, timeout=3000))
    if tier == "quick":
        return [job("q1", MaxOps=4, Interrupts="TRUE"),
                job("q5", MaxOps=3, Leaves="TRUE", GlobalSets="GlobalsEnv"),
                job("q2", MaxOps=3, GlobalSets="GlobalsQuick"),
                job("q3", Names='{"a","b"}', MaxOps=3, MaxDepth=2),
                job("q4", MaxOps=3, NilVals="TRUE", GlobalSets="GlobalsEnv")]
    # thorough: the quick family with one more name / step where TLC still finishes in minutes; every case replayed, two spellings each
    return [job("t1", MaxOps=4, Interrupts="TRUE"),
            job("t5", MaxOps=3, Leaves="TRUE", GlobalSets="GlobalsQuick"),
            job("t2", MaxOps=3, MaxDepth=3, GlobalSets="GlobalsAll"),
            job("t3", Names='{"a","b"}', MaxOps=3, MaxDepth=3, Interrupts="TRUE"),
            job("t4", MaxOps=3, NilVals="TRUE", GlobalSets="GlobalsQuick")]


def scope_family(ck, tier, only_copy=False):
    """Run Scope.tla, replay; returns list of (case, variant, src, templates, how, (step, msg))"""
    rnd = random.Random(seed())
    try:
        results = run_many(tlc_jobs(tier), parallel=5)
    finally:
        cleanup_gen()
    cases = []
    for i, r in enumerate(results):
        ck.tlc(f"Scope[{i}]", r)
        if r.violated:
            ck.fail(f"Scope.tla {r.violated} violated", {"tlc": r.out[-3000:]})
        cases += r.emitted
    if only_copy:
        cases = [c for c in cases if any(r["op"] in COPY_OPS for r in c["prog"])]
    cap = 15000 if tier == "quick" else 90000
    if len(cases) > cap:
        ck.cov["sampled_from"] = len(cases)
        cases = rnd.sample(cases, cap)
    jobs = [(c, (i + k) % 6) for i, c in enumerate(cases) for k in range(1 if tier == "quick" else 2)]
    bad = []
    for (case, variant), (src, templates, res) in zip(jobs, par.pmap(replay_one, jobs, chunk=256)):
        ck.case(("scope", str(case["glob"]), str([(r["op"], r["n"]) for r in case["prog"]]), variant),
                nontrivial=len(case["prog"]) > 1)
        ck.validated()
        for how, verdict in res:
            if verdict:
                bad.append((case, variant, src, templates, how, verdict))
                break
    return cases, bad


def report(ck, bad, only_copy):
    for case, variant, src, templates, how, (step, msg) in bad:
        inside = in_copy(case, step) or case["status"] != "ok"
        if only_copy and not inside:
            continue
        ops = "/".join(r["op"] for r in case["prog"][: step + 1] if r["op"] != "close")
        ck.fail(msg, {"program": [(r["op"], r["n"], r["v"]) for r in case["prog"]], "glob": case["glob"], "source": src,
                      "partials": templates, "mode": how, "variant": variant, "step": step},
                sig=f"scope:{ops}:{case['prog'][step]['op']}")


def run(tier: str) -> int:
    fresh_repo_imports()
    ck = Check(PID, tier)
    ck.cov["rule"] = ("Scope.tla: every well-nested sequence of binding constructs (for, tablerow, with, include with/without argument, render with/without "
                      "argument, macro call, assign, capture, increment, decrement) of <=4 steps (thorough 5) over 1-2 names, x which of render "
                      "arguments / front matter / template globals / environment globals bind the names; after every step every name is read; "
                      "TLC checks InnermostBinding/AssignWritesTopLevel/BlockScopeVanishes/Isolation/CallerUnaffected; each program is rendered "
                      "sync+async and every read compared. Paths.tla: every path of <=4 segments over a nested data tree")
    cases, bad = scope_family(ck, tier)
    report(ck, bad, only_copy=False)
    from . import c14_paths
    c14_paths.run_paths(ck, tier)
    for c in cases[:: max(1, len(cases) // 3)][:3]:
        s, tm, d, kw, eg = concretize(c, 0)
        ck.sample({"glob": c["glob"], "source": s, "partials": tm, "data": d})
    ck.assumptions += ["a name bound only as the argument of an ENCLOSING render, read from a nested render, is unspecified (not compared)",
                       "names the engine reserves (forloop, tablerowloop, partial, template, now, today, block, args, kwargs) are not in the family"]
    return ck.finish()


def replay(path):
    import json
    fresh_repo_imports()
    d = json.load(open(path))["detail"]
    print(json.dumps(d, indent=1)[:3000])
    return 0
