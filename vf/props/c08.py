"""C08 — resource limits only abort a render, never alter its output (spec/LimitSweep.tla).

Programs come from the TLA+ families of the other limit properties (LoopNest.tla nests, Limits.tla output / namespace templates,
Recursion.tla partial graphs, BlockParser.tla token sequences).  Each is rendered without the limit and under a sweep of values of
ONE limit, from 0 to beyond what the program uses; the sweep is one observation, judged value by value by LimitSweep.tla."""
from __future__ import annotations

import json
import os
import random
import re
import sys

from ..core import Check, fresh_repo_imports, seed
from ..tlcrun import run_tlc, run_many, gen_cfg, cleanup_gen, scratch_dir, MachineryError
from .. import harness, par
from . import c06, c07, c09, c21

PID = "C08"
STRBASE = sys.getsizeof("")


def outcome(o):
    if "out" in o:
        return {"st": "ok", "out": o["out"], "res": False}
    return {"st": o["err"], "out": "", "res": "ResourceLimitError" in o.get("mro", [])}


def sweep_one(job):
    """job = (kind, src, templates, data, values) -> list of observations (sync and async)"""
    kind, src, templates, data, values = job
    kwname = {"loop": "loop_limit", "output": "output_limit", "namespace": "ns_limit", "depth": "depth_limit", "nesting": "nesting_limit"}[kind]
    obs = []
    for how in ("sync", "async"):
        unl = outcome(harness.run(harness.make_env(templates=templates), src, data, how))
        sw = []
        for v in values:
            e = outcome(harness.run(harness.make_env(templates=templates, **{kwname: v}), src, data, how))
            e["v"] = v
            sw.append(e)
        obs.append({"kind": kind, "unl": {"st": unl["st"], "out": unl["out"]}, "sweep": sw, "how": how})
    return obs


def judge(observations):
    d = scratch_dir("sweep")
    path = os.path.join(d, "obs.json")
    try:
        with open(path, "w") as f:
            json.dump(observations, f)
        r = run_tlc("LimitSweep", "cfg/LimitSweep.cfg", workers=1, timeout=3000, env={"TRACE_FILE": path})
        acc = {int(m.group(1)) - 1 for m in re.finditer(r'^<<"ACCEPT", (\d+)>>', r.out, re.M)}
        rej = {int(m.group(1)) - 1: (m.group(2), int(m.group(3))) for m in re.finditer(r'^<<"REJECT", (\d+), "(\w+)", (\d+)>>', r.out, re.M)}
        if len(acc | set(rej)) != len(observations):
            raise MachineryError(f"LimitSweep.tla judged {len(acc | set(rej))} of {len(observations)} observations:\n" + r.out[-2000:])
        return rej, r
    finally:
        import shutil
        shutil.rmtree(d, ignore_errors=True)


def jobs_for(ck, tier, rnd):
    q = tier == "quick"
    try:
        tl = [("LoopNest", f"cfg/LoopNest_quick.cfg", dict(workers=1, timeout=3000)),
              ("Limits", gen_cfg("cfg/Limits.tmpl", dict(Family="output", MaxOps=4 if q else 5, MaxDepth=2, LSet="LNone", MSet="MNone", StrBase=STRBASE,
                                                         Extra="INVARIANT Emit"), "so"), dict(workers=1, timeout=3000)),
              ("Limits", gen_cfg("cfg/Limits.tmpl", dict(Family="namespace", MaxOps=4 if q else 5, MaxDepth=2, LSet="LNone", MSet="MNone", StrBase=STRBASE,
                                                         Extra="INVARIANT Emit"), "sn"), dict(workers=1, timeout=3000)),
              ("Recursion", gen_cfg("cfg/Recursion.tmpl", dict(Templates='{"t1","t2"}' if q else '{"t1","t2","t3"}', Depths="{0, 2}", Extra="INVARIANT Emit"), "sr"),
               dict(workers=1, timeout=3000)),
              ("BlockParser", gen_cfg("cfg/BlockParser.tmpl", dict(Alphabet=c21.ALPHABETS["cond"][0], MaxLen=4 if q else 5, NestLimit=30, Extra="INVARIANT Emit"), "sb"),
               dict(workers=1, timeout=3000, extra=["-maxSetSize", "4000000"])),
              ("BlockParser", gen_cfg("cfg/BlockParser.tmpl", dict(Alphabet=c21.ALPHABETS["loop"][0], MaxLen=4 if q else 5, NestLimit=30, Extra="INVARIANT Emit"), "sl"),
               dict(workers=1, timeout=3000, extra=["-maxSetSize", "4000000"]))]
        rs = run_many(tl, parallel=6)
    finally:
        cleanup_gen()
    names = ["LoopNest", "Limits output", "Limits namespace", "Recursion", "BlockParser cond", "BlockParser loop"]
    for nm, r in zip(names, rs):
        ck.tlc(nm + " (family for the sweep)", r)
        if r.violated:
            ck.fail(f"{nm}: {r.violated} violated", {"tlc": r.out[-2000:]})
    cap = 1500 if q else 12000
    pick = lambda xs: xs if len(xs) <= cap else rnd.sample(xs, cap)
    jobs = []
    seen = set()
    for c in rs[0].emitted:                                   # loop nests: one sweep per distinct program
        key = json.dumps(c["prog"], sort_keys=True)
        if key in seen:
            continue
        seen.add(key)
        prod = 1
        for lv in c["prog"]:
            prod *= max(1, lv["n"]) * max(1, lv.get("sn", 1))
        src, templates, data = c06.concretize(c["prog"])
        jobs.append(("loop", src, templates, data, list(range(0, min(prod, 40) + 3))))
    jobs = pick(jobs)
    # the same nests with every loop helper drop bound to a local, under a sweep of the local-namespace limit (sizes in sys.getsizeof units)
    jh, seenh = [], set()
    for c in rs[0].emitted:
        key = json.dumps(c["prog"], sort_keys=True)
        if key in seenh or not any(lv["k"] in ("for", "tablerow") and lv["n"] >= 2 for lv in c["prog"]):
            continue
        seenh.add(key)
        src, templates, data = c06.concretize(c["prog"], helper=True)
        jh.append(("namespace", src, templates, data, [0, 16, 48, 64, 96, 128, 256, 1024, 10 ** 6]))
    jobs += pick(jh)[: (400 if q else 4000)]
    j2 = []
    for i, c in enumerate(rs[1].emitted):
        src, templates = c07.concretize(c, i % 3)
        total = sum(r["n"] for r in c["prog"] if r["op"] == "text")
        j2.append(("output", src, templates, {}, list(range(0, 2 * total + 3))))
    jobs += pick(j2)
    j3 = []
    thresholds = sorted({b * STRBASE + j for b in range(0, 5) for j in range(0, 8)})
    for c in rs[2].emitted:
        src, templates = c07.concretize(c)
        j3.append(("namespace", src, templates, {}, thresholds))
    jobs += pick(j3)
    j4 = []
    for c in rs[3].emitted:
        tm = c09.concretize(c["g"])
        j4.append(("depth", "{% include 't1' %}", tm, {}, list(range(0, 16)) + [29, 30, 31]))
        j4.append(("depth", "{% render 't1' %}", tm, {}, list(range(0, 16)) + [29, 30, 31]))
    jobs += pick(j4)
    j5 = []
    for r, extra in ((rs[4], False), (rs[5], False)):
        for c in r.emitted:
            if c["strict"] == "ok" and any(t in ("if", "unless", "for", "tablerow", "case", "capture") for t in c["seq"]):
                j5.append(("nesting", c21.concretize(c["seq"]), None, {"v": "V"}, list(range(0, 7))))
    jobs += pick(j5)
    return jobs


def run(tier: str) -> int:
    fresh_repo_imports()
    ck = Check(PID, tier)
    rnd = random.Random(seed())
    ck.cov["rule"] = ("programs of LoopNest.tla (loop limit 0..product+2), Limits.tla output family (output limit 0..2*bytes+2), Limits.tla namespace family "
                      "(namespace limit over 40 thresholds around multiples of the measured string size), Recursion.tla graphs entered by include and by render "
                      "(context depth 0..15,29..31) and accepted BlockParser.tla sequences (block nesting 0..6); each program rendered sync+async without the "
                      "limit and under every value; each sweep is one observation judged by LimitSweep.tla (EachIsUnlimitedOrResourceError, Monotone)")
    jobs = jobs_for(ck, tier, rnd)
    observations, meta = [], []
    for job, obs in zip(jobs, par.pmap(sweep_one, jobs, chunk=16)):
        ck.case((job[0], job[1], json.dumps(job[2], sort_keys=True)), nontrivial=any(e["st"] != "ok" for e in obs[0]["sweep"]))
        ck.validated()
        for o in obs:
            how = o.pop("how")
            observations.append(o)
            meta.append((job, how))
    rej, rm = judge(observations)
    ck.tlc("LimitSweep monitor", rm)
    for i, (clause, at) in sorted(rej.items()):
        (kind, src, templates, data, values), how = meta[i]
        e = observations[i]["sweep"][at - 1] if 0 < at <= len(observations[i]["sweep"]) else {}
        ck.fail(f"LimitSweep.tla!{clause} at {kind} limit {e.get('v')}: {e.get('st')} {e.get('out', '')[:60]!r} (unlimited: {observations[i]['unl']['st']})",
                {"kind": kind, "source": src, "partials": templates, "data": data, "mode": how, "unlimited": observations[i]["unl"],
                 "sweep": [(x["v"], x["st"], x["out"][:80]) for x in observations[i]["sweep"]]},
                sig=f"{kind}:{clause}:v={e.get('v')}:{e.get('st')}")
    kinds = {}
    for (job, how) in meta:
        kinds[job[0]] = kinds.get(job[0], 0) + 1
    ck.cov["sweeps_per_limit"] = kinds
    if jobs:
        j = jobs[len(jobs) // 2]
        ck.sample({"kind": j[0], "source": j[1], "partials": j[2], "values": j[4]})
    ck.assumptions += ["'unlimited' is the engine's default for the limit (None; 30 for context depth and block nesting)",
                       "success = same output text; failure must be a subclass of ResourceLimitError or the unlimited render's own error"]
    return ck.finish()


def replay(path):
    fresh_repo_imports()
    d = json.load(open(path))["detail"]
    print(json.dumps(sweep_one((d["kind"], d["source"], d["partials"], d["data"], [x[0] for x in d["sweep"]])), indent=1)[:4000])
    return 0
