"""C20 — reported locations point at the reported item (spec/Spans.tla, spec/SpanDefs.tla, spec/SpansTrace.tla).

Spans.tla builds template sources from segments and, by the single offset rule Cat, the offset / line / column of every
name occurrence; TLC checks the property on the abstract character sequence and emits (source, partials, expected items).
Here the pieces are only loaded into a DictLoader, analysed by the real library (analyze, analyze_async, analyze_tags,
analyze_tags_async, analyze_tags_from_string, Span.line_col) and the reported (kind, name, template, index) lists are
compared with the emitted ones. For the malformed families (Spans.tla Family="errors", BlockParser.tla) every LiquidError
raised while parsing is turned into an observation record that SpansTrace.tla judges (TLC evaluates the clauses)."""
from __future__ import annotations

import asyncio
import json
import os
import random
import re
import threading
import warnings

from ..core import Check, fresh_repo_imports, seed
from ..tlcrun import MachineryError, cleanup_gen, gen_cfg, run_many, run_tlc, scratch_dir
from .. import harness
from . import c21

PID = "C20"
# token kinds whose `value` is not the verbatim source text at start_index (quotes / brackets stripped, synthetic, or trimmed)
NONVERBATIM = {"string", "identstring", "identindex", "end of expression", "content", "comment", "doc"}
_MSG_POS = re.compile(r"^\s*-> .*?(\d+):(\d+)$", re.M)
SEPS = ["", "\n", " \n\t", "\n\n  "]


_ENVS: dict = {}
_LOOPS: dict = {}


def _env(tpl, mode="strict"):
    """One environment per process, thread and mode; only the loader's templates change from case to case."""
    from liquid import DictLoader
    key = (os.getpid(), threading.get_ident(), mode)
    if key not in _ENVS:
        _ENVS[key] = harness.make_env(extra=True, mode=mode)
    _ENVS[key].loader = DictLoader(dict(tpl))
    return _ENVS[key]


def _await(coro):
    key = (os.getpid(), threading.get_ident())
    if key not in _LOOPS:
        _LOOPS[key] = asyncio.new_event_loop()
    return _LOOPS[key].run_until_complete(coro)


def _close_loops():
    for key in [k for k in _LOOPS if k[0] == os.getpid()]:
        _LOOPS.pop(key).close()


# ---------------------------------------------------------------------------------------------------------------------
# well-formed family: spans
def _templates(case):
    t = {"main": case["src"]}
    for p in case["ps"]:
        t[p["name"]] = p["text"]
    return t


def _points(text, idx, name):
    """Clause (a): the named template's source holds the name at the index (a bracket / quote may precede a quoted root)."""
    if not 0 <= idx <= len(text):
        return False
    rest = text[idx:]
    if rest.startswith(name):
        return True
    return rest.startswith("[") and rest[1:].lstrip(" ")[:1] in ("'", '"') and rest[1:].lstrip(" ")[1:].startswith(name)


def _flat_vars(m):
    return sorted((k, v.span.template_name, v.span.index) for k, vs in m.items() for v in vs)


def _flat_spans(m):
    return sorted((k, s.template_name, s.index) for k, ss in m.items() for s in ss)


def _diff(route, kind, got, want):
    """-> None or (what, sig-part, data)."""
    if got == want:
        return None
    missing = [x for x in want if x not in got]
    extra = [x for x in got if x not in want]
    # an expected occurrence reported at another offset / under another template name
    moved = [(e, g) for e in missing for g in extra if e[0] == g[0]]
    if moved:
        e, g = moved[0]
        how = "template" if e[1] != g[1] else "offset"
        return (f"{route}: {kind} {e[0]!r} is at {e[1]}:{e[2]} but is reported at {g[1]}:{g[2]}", f"{kind}:wrong-{how}", {"expected": want, "reported": got})
    if missing:
        return (f"{route}: {kind} {missing[0][0]!r} at {missing[0][1]}:{missing[0][2]} is not reported", f"{kind}:missing", {"expected": want, "reported": got})
    if extra:
        return (f"{route}: {kind} {extra[0][0]!r} reported at {extra[0][1]}:{extra[0][2]}, where the source has no such occurrence", f"{kind}:extra",
                {"expected": want, "reported": got})
    return (f"{route}: {kind} reported a different number of times", f"{kind}:multiplicity", {"expected": want, "reported": got})


def replay_span(job):
    case, variant = job
    from liquid.span import Span
    tpl = _templates(case)
    env = _env(tpl)
    items = case["items"]
    want = {
        "variable": sorted((i["n"], i["tn"], i["o"]) for i in items if i["k"] == "var"),
        "local": sorted((i["n"], i["tn"], i["o"]) for i in items if i["k"] == "local"),
        "filter": sorted((i["n"], i["tn"], i["o"]) for i in items if i["k"] == "filter"),
        "tag": sorted((i["n"], i["tn"], i["o"]) for i in items if i["k"] in ("tag", "ltag")),
    }
    linecol = {(i["n"], i["tn"], i["o"]): (i["ln"], i["cl"]) for i in items}
    fails = []

    def fail(what, sig, data):
        d = {"source": case["src"], "partials": {k: v for k, v in tpl.items() if k != "main"}, "variant": variant}
        d.update(data)
        fails.append((what, d, sig))

    try:
        t = env.from_string(case["src"], name="main") if variant % 2 == 0 else env.get_template("main")
    except Exception as e:  # a source of the well-formed family must parse
        import re as _re
        if any(_re.search(r"\n[ \t]+\n", text) for text in tpl.values()):
            return []      # layout 7: a whitespace-only line inside a liquid tag may be refused by the parser (no claim then)
        fail(f"well-formed source does not parse: {type(e).__name__}: {str(e).splitlines()[0] if str(e) else ''}", "noparse", {})
        return fails
    for route in ("analyze", "analyze_async"):
        try:
            a = t.analyze(include_partials=True) if route == "analyze" else _await(t.analyze_async(include_partials=True))
        except Exception as e:
            fail(f"{route} raised {type(e).__name__}: {e}", f"{route}:raised", {})
            continue
        got = {"variable": _flat_vars(a.variables), "global": _flat_vars(a.globals), "local": _flat_vars(a.locals),
               "filter": _flat_spans(a.filters), "tag": _flat_spans(a.tags)}
        bad = None
        # (a) every reported location indexes into the NAMED template's source at the reported name
        for kind, lst in got.items():
            for name, tn, idx in lst:
                if tn not in tpl:
                    bad = (f"{route}: {kind} {name!r} is reported in template {tn!r}, which is not a template of the case", f"{kind}:unknown-template", {"reported": lst})
                elif not _points(tpl[tn], idx, name):
                    bad = (f"{route}: {kind} {name!r} reported at {tn}:{idx}, where the source reads {tpl[tn][idx:idx + 12]!r}", f"{kind}:not-at-name", {"reported": lst})
                if bad:
                    break
            if bad:
                break
        # (b) the occurrences the specification lists, at its offsets. The STATEMENT only says that a reported location points at the reported
        # item - clause (a); which occurrences are reported, and how often, is C19's subject. A difference here that passed (a) is therefore
        # recorded as a note (returned with a "note:" signature), not judged.
        if not bad:
            for kind in ("variable", "local", "filter", "tag"):
                d = _diff(route, kind, got[kind], want[kind])
                if d:
                    fails.append((d[0], {"note": True}, "note:" + d[1]))
                    break
        # Span.line_col of the named template's source agrees with the specification's line / column
        if not bad:
            for kind, lst in got.items():
                for name, tn, idx in lst:
                    try:
                        lc = tuple(Span(tn, idx).line_col(tpl[tn]))
                    except Exception as e:
                        lc = f"raised {type(e).__name__}"
                    if (name, tn, idx) in linecol and lc != tuple(linecol[(name, tn, idx)]):
                        bad = (f"{route}: Span.line_col of {kind} {name!r} at {tn}:{idx} is {lc}, the source has it at {tuple(linecol[(name, tn, idx)])}",
                               "line_col", {})
                        break
                if bad:
                    break
        if bad:
            fail(bad[0], f"{route}:{bad[1]}", bad[2])
    # tag analysis of every template of the case, through the loader (sync, async) and from the string
    for tn, text in tpl.items():
        want_tags = sorted((i["n"], i["tn"], i["o"]) for i in items if i["k"] in ("tag", "itag") and i["tn"] == tn)
        for route in ("analyze_tags", "analyze_tags_async", "analyze_tags_from_string"):
            try:
                if route == "analyze_tags":
                    ta = env.analyze_tags(tn)
                elif route == "analyze_tags_async":
                    ta = _await(env.analyze_tags_async(tn))
                else:
                    ta = env.analyze_tags_from_string(text, name=tn)
            except Exception as e:
                fail(f"{route}({tn!r}) raised {type(e).__name__}: {e}", f"{route}:raised", {})
                continue
            got = _flat_spans(ta.all_tags)
            bad = None
            for name, rtn, idx in got:
                if rtn != tn or not _points(text, idx, name):
                    bad = (f"{route}: tag {name!r} reported at {rtn}:{idx}, where the source of {tn!r} reads {text[idx:idx + 12]!r}", "tag:not-at-name", {"reported": got})
                    break
            bad = bad or _diff(route, "tag", got, want_tags)
            if not bad:
                for label, m in (("tags", ta.tags), ("unclosed_tags", ta.unclosed_tags), ("unexpected_tags", ta.unexpected_tags), ("unknown_tags", ta.unknown_tags)):
                    stray = [g for g in _flat_spans(m) if g not in got]
                    if stray:
                        bad = (f"{route}: {label} lists {stray[0][0]!r} at {stray[0][1]}:{stray[0][2]}, which is not a tag occurrence", f"{label}:extra", {"reported": _flat_spans(m)})
                        break
            if bad:
                fail(bad[0], f"{route}:{bad[1]}", bad[2])
    return fails


# ---------------------------------------------------------------------------------------------------------------------
# malformed families: one observation per LiquidError raised while parsing
def _observe(err, exp_text, lo, warn_fmt="ok"):
    tok = err.token
    if tok is None:
        return None
    fmt = warn_fmt
    msg = ""
    ctx = None
    try:
        msg = str(err)
    except Exception as e:
        fmt = f"str(): {type(e).__name__}: {e}"
    try:
        err.detailed_message()
    except Exception as e:
        fmt = f"detailed_message(): {type(e).__name__}: {e}"
    try:
        ctx = err.context()
    except Exception as e:
        fmt = f"context(): {type(e).__name__}: {e}"
    m = _MSG_POS.search(msg)
    return {"src": tok.source, "exp": exp_text, "idx": tok.start_index, "line": ctx[0] if ctx else 0, "col": ctx[1] if ctx else 0,
            "mline": int(m.group(1)) if m else 0, "mcol": int(m.group(2)) if m else 0, "fmt": fmt,
            "verb": tok.kind not in NONVERBATIM, "val": tok.value, "lo": lo}


def _warn_fmt(tpl, src):
    """The same parse in warn mode formats the message for the warning: it must not raise anything but a Liquid error."""
    from liquid.exceptions import LiquidError
    env = _env(tpl, "warn")
    try:
        env.from_string(src, name="main")     # warnings are silenced for the whole run (catch_warnings is not thread-safe)
    except LiquidError:
        pass
    except Exception as e:
        return f"warn mode: {type(e).__name__}: {e}"
    return "ok"


def _parse_errors(tpl, src, where, lo, variant):
    """-> (observations, notes). where = name of the template that holds the malformed construct."""
    from liquid.exceptions import LiquidError
    env = _env(tpl)
    obs, notes = [], []
    try:
        t = env.from_string(src, name="main") if variant % 2 == 0 else env.get_template("main")
    except LiquidError as e:
        if where != "main":
            notes.append(f"the parent of a malformed partial does not parse: {e.message}")
        o = _observe(e, tpl[where], lo, _warn_fmt(tpl, src))
        (obs if o else notes).append(o or "error without a token")
        return obs, notes
    except Exception as e:
        notes.append(f"non-Liquid {type(e).__name__} while parsing")
        return obs, notes
    if where == "main":
        notes.append("parsed")
        return obs, notes
    for how in ("sync", "async"):     # a partial is parsed when the parent is rendered
        try:
            t.render() if how == "sync" else _await(t.render_async())
            notes.append("parsed")
        except LiquidError as e:
            o = _observe(e, tpl[where], lo)
            (obs if o else notes).append(o or "error without a token")
        except Exception as e:
            notes.append(f"non-Liquid {type(e).__name__} while rendering")
    return obs, notes


def replay_err(job):
    case, variant = job
    bad = [i for i in case["items"] if i["k"] == "bad"][0]
    tpl = _templates(case)
    obs, notes = _parse_errors(tpl, case["src"], bad["tn"], bad["o"], variant)
    return bad["n"], obs, notes


def conc_bp(seq, variant):
    sep = SEPS[variant % len(SEPS)]
    return sep.join(c21.TEXT[t].replace("@", str(i)) for i, t in enumerate(seq)) + (sep if variant % 3 == 0 else "")


def replay_bp(job):
    seq, extra, variant = job
    src = conc_bp(seq, variant)
    obs, notes = _parse_errors({"main": src}, src, "main", 0, variant)
    return "blockparser", obs, notes


_JUDGE = re.compile(r'^<<"JUDGE", (\d+), "(\w+)">>', re.M)


JOPTS: list = []


def judge(observations):
    """SpansTrace.tla evaluates the clauses on every observation. -> (list of verdicts, tlc result)"""
    if not observations:
        raise MachineryError("no error observations to judge (vacuous)")
    d = scratch_dir("spans")
    path = os.path.join(d, "obs.json")
    try:
        with open(path, "w") as f:
            json.dump(observations, f)
        r = run_tlc("SpansTrace", "cfg/SpansTrace.cfg", workers=4, timeout=1500, env={"TRACE_FILE": path}, java_opts=JOPTS)
        verdict = {int(m.group(1)) - 1: m.group(2) for m in _JUDGE.finditer(r.out)}
        if len(verdict) != len(observations):
            raise MachineryError(f"SpansTrace.tla judged {len(verdict)} of {len(observations)} observations:\n" + r.out[-2000:])
        return [verdict[i] for i in range(len(observations))], r
    finally:
        import shutil
        shutil.rmtree(d, ignore_errors=True)


# ---------------------------------------------------------------------------------------------------------------------
DEVS = ["ExprStart", "LiquidStart", "Indent", "ParentName", "Pipe"]


def _pmap(fn, items):
    """Replays run in this process: one costs 0.3-0.5 ms here, while the same replay in a forked worker of par.pmap was
    measured 5-10x slower on this machine (copy-on-write faults on the inherited case lists), so forking never pays off."""
    import gc
    gc.freeze()     # the emitted cases are long-lived: keep the cyclic collector from walking them again and again
    return [fn(x) for x in items]


def _span_stage(cases):
    """-> (ordered cases, list of per-case failure lists)"""
    uniq = {}
    for c in cases:     # simulation revisits states; order deterministically
        uniq.setdefault((c["src"], json.dumps(c["ps"], sort_keys=True)), c)
    cases = [uniq[k] for k in sorted(uniq)]
    jobs = [(c, i) for i, c in enumerate(cases)]
    return cases, _pmap(replay_span, jobs)


def _error_stage(kind, jobs):
    """Replay a malformed family, then let SpansTrace.tla judge the distinct observations.
    -> dict(results=[(label, source, partials, notes)], verdicts=[(observation, verdict, label, source, partials)], tlc=result)"""
    if kind == "errors":
        res = _pmap(replay_err, jobs)
        srcs = [(c["src"], {p["name"]: p["text"] for p in c["ps"]}) for c, _ in jobs]
    else:
        res = _pmap(replay_bp, jobs)
        srcs = [(conc_bp(s, v), {}) for s, _, v in jobs]
    obs_list, owner, index, per_case = [], [], {}, []
    for (label, obs, notes), (src, parts) in zip(res, srcs):
        per_case.append((label, src, parts, notes, len(obs)))
        for o in obs:
            key = json.dumps(o, sort_keys=True)
            if key not in index:
                index[key] = len(obs_list)
                obs_list.append(o)
                owner.append((label, src, parts))
    verdicts, rj = judge(obs_list)
    return {"cases": per_case, "verdicts": [(o, v) + w for o, v, w in zip(obs_list, verdicts, owner)], "tlc": rj}


def run(tier: str) -> int:
    fresh_repo_imports()
    import time
    from concurrent.futures import ThreadPoolExecutor, as_completed
    ck = Check(PID, tier)
    rnd = random.Random(seed())
    quick = tier == "quick"
    t0 = time.time()
    timing = ck.cov.setdefault("timing_s", {})
    jobs = {}
    warnings.simplefilter("ignore")     # the message of a warn-mode warning is still formatted before it is dropped

    # short runs: the C1 compiler only and few GC threads (JVM start-up and JIT dominate them); long runs: the full JIT
    JOPTS[:] = ["-XX:TieredStopAtLevel=1", "-XX:ParallelGCThreads=2"] if quick else ["-XX:ParallelGCThreads=4"]

    def add(name, module, cfg, **kw):
        kw.setdefault("java_opts", list(JOPTS))
        jobs[name] = (module, cfg, kw)

    results, span_out, err_out = {}, None, {}
    try:
        emit = "INVARIANT Emit"
        if quick:
            add("spans", "Spans", gen_cfg("cfg/Spans.tmpl", dict(MaxSegs=3, MaxRich=1, Level=1, Family="spans", Dev="none", Extra=emit), "s1"), workers=4, timeout=900)
            add("errors", "Spans", gen_cfg("cfg/Spans.tmpl", dict(MaxSegs=2, MaxRich=1, Level=1, Family="errors", Dev="none", Extra=emit), "e1"), workers=2, timeout=900)
            devs = DEVS[:1]
            bpL = 3
        else:
            add("spans", "Spans", gen_cfg("cfg/Spans.tmpl", dict(MaxSegs=3, MaxRich=1, Level=2, Family="spans", Dev="none", Extra=emit), "s1"), workers=6, timeout=3000)
            add("spans-pairs", "Spans", gen_cfg("cfg/Spans.tmpl", dict(MaxSegs=2, MaxRich=2, Level=1, Family="spans", Dev="none", Extra=emit), "s2"), workers=6, timeout=3000)
            add("spans-simulate", "Spans", gen_cfg("cfg/Spans.tmpl", dict(MaxSegs=5, MaxRich=3, Level=1, Family="spans", Dev="none", Extra=emit), "s3"),
                workers=4, timeout=3000, simulate="num=60", depth=6, seed=seed() + 20)
            add("errors", "Spans", gen_cfg("cfg/Spans.tmpl", dict(MaxSegs=2, MaxRich=1, Level=2, Family="errors", Dev="none", Extra=emit), "e1"), workers=4, timeout=3000)
            add("errors-3", "Spans", gen_cfg("cfg/Spans.tmpl", dict(MaxSegs=3, MaxRich=1, Level=1, Family="errors", Dev="none", Extra=emit), "e2"), workers=4, timeout=3000)
            devs = DEVS
            bpL = 4
        for dv in devs:   # each deviation of the offset mechanism must break the property on the abstract source (the invariant is not vacuous)
            add("dev-" + dv, "Spans", gen_cfg("cfg/Spans.tmpl", dict(MaxSegs=2, MaxRich=1, Level=1, Family="spans", Dev=dv, Extra=""), "d" + dv),
                workers=1, timeout=900, expect_violation=True)
        for nm, (alpha, extra) in c21.ALPHABETS.items():
            if quick and nm not in ("cond", "mixed"):
                continue
            add("bp-" + nm, "BlockParser", gen_cfg("cfg/BlockParser.tmpl", dict(Alphabet=alpha, MaxLen=bpL, NestLimit=c21.NEST if nm != "extra" else 8, Extra="INVARIANT Emit"), "b" + nm),
                workers=1, timeout=3000, extra=["-maxSetSize", "4000000"])
        # pipeline: a family is replayed (and its errors judged) as soon as its generator is done, while the others still run
        with ThreadPoolExecutor(max_workers=len(jobs) + 4) as ex:
            futs = {ex.submit(run_tlc, m, c, **kw): nm for nm, (m, c, kw) in jobs.items()}
            stage = {}
            for f in as_completed(list(futs)):
                nm = futs[f]
                results[nm] = r = f.result()
                timing["tlc " + nm] = round(time.time() - t0, 1)
                if r.violated or nm.startswith("dev-"):
                    continue
                if nm.startswith("errors") and all(n in results for n in jobs if n.startswith("errors")) and not any(results[n].violated for n in jobs if n.startswith("errors")):
                    uniq = {}
                    for n in sorted(jobs):
                        if n.startswith("errors"):
                            for c in results[n].emitted:
                                uniq.setdefault((c["src"], json.dumps(c["ps"], sort_keys=True)), c)
                    stage["errors"] = ex.submit(_error_stage, "errors", [(uniq[k], i) for i, k in enumerate(sorted(uniq))])
                elif nm.startswith("bp-") and all(n in results for n in jobs if n.startswith("bp-")) and not any(results[n].violated for n in jobs if n.startswith("bp-")):
                    bp = sorted((c["seq"], c21.ALPHABETS[n[3:]][1]) for n in jobs if n.startswith("bp-") for c in results[n].emitted if c["seq"])
                    bp = [(s, e, i) for i, (s, e) in enumerate(bp)]
                    if len(bp) > 15000:
                        bp = sorted(rnd.sample(bp, 15000))
                    stage["blockparser"] = ex.submit(_error_stage, "blockparser", bp)
                elif nm.startswith("spans") and all(n in results for n in jobs if n.startswith("spans")) and not any(results[n].violated for n in jobs if n.startswith("spans")):
                    stage["spans"] = ex.submit(_span_stage, [c for n in sorted(jobs) if n.startswith("spans") for c in results[n].emitted])
            if "spans" in stage:
                span_out = stage["spans"].result()
                timing["span_replay_done"] = round(time.time() - t0, 1)
            for k in ("errors", "blockparser"):
                if k in stage:
                    err_out[k] = stage[k].result()
                    timing[k + "_judged"] = round(time.time() - t0, 1)
    finally:
        cleanup_gen()
        _close_loops()

    for nm in jobs:
        r = results[nm]
        ck.tlc(("BlockParser " if nm.startswith("bp-") else "Spans ") + nm, r)
        if nm.startswith("dev-"):
            if r.violated != "ItemsPointAtNames":
                raise MachineryError(f"deviation {nm} does not violate ItemsPointAtNames (violated={r.violated!r}): the invariant does not bind\n" + r.out[-1500:])
        elif r.violated:
            ck.fail(f"{'BlockParser' if nm.startswith('bp-') else 'Spans'}.tla {r.violated} violated ({nm})", {"tlc": r.out[-3000:]})
    if ck.violations:
        return ck.finish()
    ck.cov["rule"] = (
        "Spans.tla: sources of <=3 segments, one (thorough: also two adjacent, and three in simulated 5-segment sources) from the full family - output statements "
        "over 9 path shapes (dotted, nested variable, quoted / bracketed segments, quoted root, hyphen/question-mark names) x 4 filter chains with path arguments; "
        "assign / capture / if-else-elsif / unless / case-when / for (limit, offset, reversed, else, break, range) / tablerow / with / macro+call / echo / cycle / "
        "increment / decrement / inline comment / comment block / raw; include and render (bare, with..as, keyword arguments, for..as) of partials holding text lines, "
        "outputs, assign, a liquid tag, a nested include; {%% liquid %%} tags of 1-5 lines in %s indentation/blank-line layouts - in %s whitespace styles "
        "(tight, padded, whitespace control, newlines inside the markup), each preceded/followed by context segments (multi-line text, output%s); "
        "expected (kind, name, template, offset, line, column) of every name occurrence is computed by the specification. Malformed family: "
        "39 malformed output/tag shapes x styles, 9 malformed liquid-tag lines x layouts x position, 19 malformed partial bodies under include/render, "
        "each alone or with %s before/after; plus every BlockParser.tla token sequence of length <= %d over %s alphabets, joined with "
        "four separators (none, newline, mixed white space, blank line + indentation); every raised error is judged by SpansTrace.tla"
        % ("4" if quick else "6", "3" if quick else "6", "" if quick else ", liquid tag, comment block, assign", "one context segment" if quick else "one context segment of the larger context family or two of the smaller",
           bpL, "two" if quick else "five (a seeded sample of 15 000 of them)"))

    # ---- spans ----
    span_cases, span_fails = span_out
    for case, fails in zip(span_cases, span_fails):
        ck.case((case["src"], json.dumps(case["ps"], sort_keys=True)), nontrivial=any(i["o"] > 0 for i in case["items"]))
        ck.validated()
        notes = [f for f in fails if f[2].startswith("note:")]
        if notes:
            ck.cov["occurrence_list_differs_note"] = ck.cov.get("occurrence_list_differs_note", 0) + len(notes)
            ck.cov.setdefault("occurrence_list_notes", [])
            if len(ck.cov["occurrence_list_notes"]) < 5:
                ck.cov["occurrence_list_notes"].append(notes[0][0][:200])
        for what, detail, sig in [f for f in fails if not f[2].startswith("note:")][:2]:
            detail["expected_items"] = [(i["k"], i["n"], i["tn"], i["o"]) for i in case["items"]]
            ck.fail(what, detail, sig="span:" + sig)
    # ---- errors ----
    stats = {"parsed_without_error": 0, "errors_without_token": 0, "observations": 0, "distinct_observations": 0}
    for fam in ("errors", "blockparser"):
        out = err_out[fam]
        ck.tlc("SpansTrace %s (judgement of %d distinct observations)" % (fam, len(out["verdicts"])), out["tlc"])
        stats["distinct_observations"] += len(out["verdicts"])
        for label, src, parts, notes, nobs in out["cases"]:
            ck.case(("err", src, json.dumps(parts, sort_keys=True)), nontrivial=nobs > 0)
            ck.validated()
            stats["observations"] += nobs
            for note in notes:
                if note == "parsed":
                    stats["parsed_without_error"] += 1
                    if label != "blockparser":
                        shown = ck.cov.setdefault("malformed_shapes_that_parsed", [])
                        if len(shown) < 5:
                            shown.append({"label": label, "source": src})
                elif note == "error without a token":
                    stats["errors_without_token"] += 1
                elif note.startswith("non-Liquid"):
                    pass    # C02's concern; no Liquid error to look at
                else:
                    ck.fail("malformed partial family: " + note, {"source": src, "partials": parts, "label": label}, sig="err:parent:" + label)
        for o, v, label, src, parts in out["verdicts"]:
            if v != "ok":
                shown = {k: o[k] for k in ("idx", "line", "col", "mline", "mcol", "fmt", "val", "lo")}
                cls = label.split(":")[0] if label.startswith(("liquid:", "assign:")) else ("blockparser" if label == "blockparser" else "shape")
                ck.fail(f"parse error position: clause {v} of SpansTrace.tla does not hold ({label})",
                        {"source": src, "partials": parts, "label": label, "observation": shown, "token_source": o["src"], "expected_source": o["exp"]},
                        sig=f"err:{v}:{cls}")
    ck.cov["error_family"] = stats
    timing["total"] = round(time.time() - t0, 1)
    for c in span_cases[:: max(1, len(span_cases) // 3)][:3]:
        ck.sample({"source": c["src"], "partials": {p["name"]: p["text"] for p in c["ps"]}, "expected": [(i["k"], i["n"], i["tn"], i["o"], i["ln"], i["cl"]) for i in c["items"]]})
    ck.assumptions += [
        "exact equality with the specification's occurrence list is claimed for the generated family only; `globals` is checked to be a subset of the variable "
        "occurrences (which names are in scope is C19/C14's subject); tag analysis is expected not to look inside {% liquid %} tags nor inside comment/raw blocks",
        "a path whose root is a bracketed variable (`[x].y`, reported under the synthetic name \"['x']\") is outside the family; partial names are unique per "
        "template (repeated visits of one partial are C19's subject); a line break is `\\n` (no `\\r`, form feed or Unicode line separators in the family)",
        "an error without a token (token is None) carries no position and is not judged (counted in coverage.error_family); errors raised at render time "
        "for a construct of the main template are not parse errors and are outside the clause",
        "clause Verbatim (the token's value stands at start_index) rests on the Token docstring and is applied only to token kinds that keep the source text "
        "verbatim; clause NotBeforeConstruct assumes the first error of a source is not located in the well-formed text before the malformed construct",
    ]
    return ck.finish()


def replay(path):
    fresh_repo_imports()
    d = json.load(open(path))["detail"]
    tpl = dict(d.get("partials") or {})
    src = d.get("source")
    tpl["main"] = src
    env = harness.make_env(extra=True, templates=tpl)
    try:
        t = env.from_string(src, name="main")
    except Exception as e:
        tok = getattr(e, "token", None)
        print("parse error:", type(e).__name__, "token:", tok and (tok.kind, tok.value, tok.start_index, len(tok.source)))
        print(str(e))
        return 0
    a = t.analyze(include_partials=True)
    for kind in ("variables", "globals", "locals"):
        print(kind, _flat_vars(getattr(a, kind)))
    print("filters", _flat_spans(a.filters))
    print("tags", _flat_spans(a.tags))
    print("all_tags", _flat_spans(env.analyze_tags_from_string(src, name="main").all_tags))
    print("expected", d.get("expected_items"))
    return 0
