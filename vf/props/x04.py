"""X04 (beyond the listed properties) — the tablerow tag: exact HTML, every tablerowloop field, break / continue, nesting
with for loops and the loop iteration limit (spec/TableRow.tla).

The expected text of every atom is computed by the specification (TableRow.tla `Text`); this module only chooses a
concrete spelling of the abstract input (list / tuple / range object, literal or variable range bounds, literal /
variable / numeric-string arguments, argument order, dotted or bracketed drop access), renders it sync and async through
the real engine and compares the output with the joined atoms."""
from __future__ import annotations

import itertools
import json

from ..core import Check, fresh_repo_imports
from ..tlcrun import run_many, gen_cfg, cleanup_gen
from .. import harness, par

PID = "X04"
NONE = -99
ORDERS = list(itertools.permutations(("cols", "limit", "offset")))
TIERS = {
    # lengths split over parallel TLC runs; ColsSet; RangeStarts; concrete variants per abstract case
    "quick": dict(parts=[([0, 1, 2], "{FALSE, TRUE}"), ([3], "{FALSE}"), ([3], "{TRUE}")], cols="{1, 2}", starts="{2}", variants=1),
    "thorough": dict(parts=[([0, 1, 2, 3], "{FALSE}"), ([0, 1, 2, 3], "{TRUE}"), ([4], "{FALSE}"), ([4], "{TRUE}"), ([5], "{FALSE}"), ([5], "{TRUE}")],
                     cols="{1, 2, 3}", starts="{2, 5}", variants=2),
}
_envs: dict = {}


def _env(lim):
    if lim not in _envs:
        _envs[lim] = harness.make_env(loop_limit=None if lim == NONE else lim)
    return _envs[lim]


def _arg(name, v, form, data):
    if v == NONE:
        return None
    form %= 5
    if form == 0:
        return f"{name}:{v}"
    if form == 1:
        return f"{name}: {v}"
    if form == 2:
        data[name + "_v"] = v
        return f"{name}:{name}_v"
    if form == 3:
        data[name + "_v"] = str(v)          # a string representation of an integer is accepted (CHANGES, issue #78)
        return f"{name}: {name}_v"
    return f"{name}:'{v}'"


def _field(drop, f, bracket):
    return "{{%s['%s']}}" % (drop, f) if bracket else "{{%s.%s}}" % (drop, f)


def concretize(case, variant):
    inp = case["inp"]
    coll = inp["coll"]
    data: dict = {}
    a, b = coll["a"], coll["b"]
    if coll["src"] == "array":
        kind = ("list", "tuple", "pyrange")[variant % 3]
        data["c"] = {"list": list, "tuple": tuple, "pyrange": lambda r: r}[kind](range(a, b + 1))
        src = "c"
    else:
        kind = ("literal", "varbounds", "mixed")[variant % 3]
        if kind == "literal":
            src = f"({a}..{b})"
        elif kind == "varbounds":
            data["lo"], data["hi"] = a, b
            src = "(lo..hi)"
        else:
            data["hi"] = b
            src = f"({a}..hi)"
    args = {"cols": _arg("cols", inp["cols"], variant // 3, data),
            "limit": _arg("limit", inp["limit"], variant // 3 + 1, data),
            "offset": _arg("offset", inp["offset"], variant // 3 + 3, data)}
    argtext = "".join(" " + args[k] for k in ORDERS[variant % 6] if args[k])
    br = variant % 2 == 1
    L = "tablerowloop"
    pre = "{{x}}:" + "".join(_field(L, f, br) + "," for f in case["ints"] + case["bools"]) + ";f{{forloop.index}}"
    inner = ""
    if inp["inner"] != "none":
        jump = "" if inp["inner"] == "plain" else "{% if j == 1 %}{% " + inp["inner"] + " %}{% endif %}"
        inner = ("{% for j in (1..2) %}({{j}}.{{forloop.index}}.{{forloop.parentloop.index}}." + _field(L, "index", br) + ")" + jump + "!{% endfor %}")
    intr = ""
    if inp["intr"]["k"] != "none":
        intr = "{% if tablerowloop.index == " + str(inp["intr"]["at"]) + " %}{% " + inp["intr"]["k"] + " %}{% endif %}"
    table = "{% tablerow x in " + src + argtext + " %}" + pre + inner + intr + "P{% endtablerow %}"
    if inp["outer"]:
        table = "{% for o in (1..2) %}[{{forloop.index}}:" + table + "]{% endfor %}"
    return table + "A{{tablerowloop.length}}{{x}}Z", data, kind


def diagnose(case, got):
    """Name the first atom of the specification's output that the engine's text does not continue with."""
    pos, prev = 0, "start"
    for i, (k, t) in enumerate(zip(case["kinds"], case["text"])):
        if not got.startswith(t, pos):
            return k, f"after atom {i - 1} ({prev}) the specification continues with {k} {t!r}, the engine wrote {got[pos:pos + max(len(t), 24)]!r}"
        pos += len(t)
        prev = k
    return "tail", f"engine wrote more than the specification: {got[pos:pos + 60]!r}"


def judge(case, o):
    """None if the observed outcome is the specification's, else (short class, explanation)."""
    if case["outcome"] == "error":
        if o.get("err") == "LoopIterationLimitError":
            return None
        return "limit", "TableRow.tla says the loop iteration limit is exceeded; engine: " + (o.get("err") or repr(o.get("out"))[:200])
    if "out" not in o:
        return "raised", f"engine raised {o['err']} ({o.get('msg') or o.get('detail') or ''})"
    if o["out"] == "".join(case["text"]):
        return None
    if case["devtext"] and o["out"] == "".join(case["devtext"]):
        # the specification itself identifies the observation: it is exactly what the named deviation writes
        return "SeparatorBeforeBreak", ("break in the last column of a full row that is not the last: the engine opens the next row (an empty <tr>) before it "
                                        "leaves the loop; TableRow.tla deviation SeparatorBeforeBreak reproduces the engine's text exactly")
    return diagnose(case, o["out"])


def replay_one(job):
    case, variant = job
    src, data, kind = concretize(case, variant)
    env = _env(case["inp"]["lim"])
    res = []
    tmpl, err = harness.parse(env, src)
    for how in ("sync", "async"):
        o = err if err else harness.render(tmpl, data, how)
        res.append((how, judge(case, o), o.get("out", o.get("err"))))
    return src, data, kind, res


def _cls(v, n):
    return "-" if v == NONE else "0" if v == 0 else "in" if v < n else "n" if v == n else "beyond"


def _sig(case, why):
    if why == "SeparatorBeforeBreak":
        return "tablerow:SeparatorBeforeBreak"
    i = case["inp"]
    n = i["coll"]["b"] - i["coll"]["a"] + 1
    return (f"tablerow:{'infor' if i['outer'] else 'top'}:inner={i['inner']}:cols={_cls(i['cols'], max(case['seglen'], 0))}:limit={_cls(i['limit'], n)}"
            f":offset={_cls(i['offset'], n)}:{i['intr']['k']}:{'lim' if i['lim'] != NONE else 'nolim'}:{why}")


def run(tier: str) -> int:
    fresh_repo_imports()
    ck = Check(PID, tier)
    T = TIERS[tier]
    maxlen = max(max(x) for x, _ in T["parts"])
    ck.cov["rule"] = (f"TableRow.tla: every tablerow over an array or a range (a..b) of length 0..{maxlen} (ranges from {T['starts']}, plus reversed-bound empty ranges), "
                      f"cols in {{absent, 0 (unspecified), {T['cols'][1:-1]}, n+1, n+3}}, limit and offset in {{absent, 0..n+1}} (offset in {{absent, 1}} inside a for), no interrupt / break / continue at every cell index, "
                      "alone or inside a for over (1..2), with no inner for / an inner for / an inner for that breaks / continues, and (for the plain loops) every loop "
                      "iteration limit 1..4n+1. TLC checks that the step-by-step mechanism (clamped slice, drop counters, write order, loop stack + carry) equals the "
                      "closed-form requirement (drop-then-take, row/col by div/mod, separator after a full row followed by a cell, limit by product), drop consistency, "
                      "HTML shape (rows/cells numbered from 1, every row but the last full, no empty row in a non-empty table). Every terminal state is emitted with the "
                      "exact text of each atom; each is rendered sync and async in a concrete spelling (list/tuple/range object, literal/variable bounds, literal/"
                      "variable/string arguments in any order, dotted/bracketed drop access) and the output must equal the joined atoms")
    try:
        jobs = []
        for k, (lens, outers) in enumerate(T["parts"]):
            cfg = gen_cfg("cfg/TableRow.tmpl", {"Lens": "{" + ", ".join(map(str, lens)) + "}", "ColsSet": T["cols"], "RangeStarts": T["starts"],
                                                "Outers": outers}, f"{tier}{k}")
            jobs.append(("TableRow", cfg, dict(workers=1, timeout=3000)))
        # the finding's counterexample: with the engine's write order (separator before the break test) NoEmptyRow is refuted
        jobs.append(("TableRow", "cfg/TableRow_deviation.cfg", dict(workers=4, timeout=600, expect_violation=True)))
        results = run_many(jobs, parallel=len(jobs))
        dev = results.pop()
    finally:
        cleanup_gen()
    emitted = []
    if dev.violated != "NoEmptyRow":
        ck.fail("TableRow_deviation.cfg: the SeparatorBeforeBreak deviation no longer refutes NoEmptyRow (binding of the invariant lost)", {"tlc": dev.out[-2000:]})
    ck.cov["deviation_SeparatorBeforeBreak_refutes"] = dev.violated
    for (lens, outers), r in zip(T["parts"], results):
        ck.tlc(f"TableRow_{tier}_len" + "".join(map(str, lens)) + "_outer" + outers.strip("{}").replace(", ", "").replace("FALSE", "F").replace("TRUE", "T"), r)
        if r.violated:
            ck.fail(f"TableRow.tla {r.violated} violated", {"tlc": r.out[-3000:]})
            return ck.finish()
        emitted += r.emitted
    cases = [c for c in emitted if c["claimed"]]
    ck.cov["unspecified_cells_not_judged"] = len(emitted) - len(cases)
    ck.cov["outcomes"] = {k: sum(1 for c in cases if c["outcome"] == k) for k in ("done", "error")}
    ck.cov["cells_with_break_in_last_column_of_a_full_row"] = sum(
        1 for c in cases if c["inp"]["intr"]["k"] == "break" and c["inp"]["cols"] != NONE and c["inp"]["intr"]["at"] % c["inp"]["cols"] == 0
        and c["inp"]["intr"]["at"] < c["seglen"])
    if not cases or not ck.cov["outcomes"]["error"] or not ck.cov["cells_with_break_in_last_column_of_a_full_row"]:
        ck.fail("vacuous family", {"emitted": len(emitted)})
        return ck.finish()
    nv = T["variants"]
    jobs = [(c, (i * 7 + v * 11) % 30) for i, c in enumerate(cases) for v in range(nv)]
    res = par.pmap(replay_one, jobs, chunk=128)
    spell = {}
    for (case, variant), (src, data, kind, rr) in zip(jobs, res):
        ck.case(src + json.dumps(data, default=list), nontrivial=case["seglen"] > 0)
        ck.validated()
        spell[kind] = spell.get(kind, 0) + 1
        for how, why, got in rr:
            if why:
                ck.fail("tablerow: " + why[1], {"input": case["inp"], "variant": variant, "source": src, "data": data, "mode": how,
                                                "loop_iteration_limit": None if case["inp"]["lim"] == NONE else case["inp"]["lim"],
                                                "observed": got, "expected_outcome": case["outcome"], "expected": "".join(case["text"]),
                                                "atoms": case["text"]}, sig=_sig(case, why[0]))
                break
    ck.cov["spellings"] = spell
    for c in (cases[len(cases) // 3], cases[2 * len(cases) // 3]):
        s, d, _ = concretize(c, 2)
        ck.sample({"input": c["inp"], "source": s, "data": d, "expected": "".join(c["text"]) if c["outcome"] == "done" else "LoopIterationLimitError"})
    ck.assumptions += [
        "not one of the listed properties: the semantics are the tag reference (docs/tag_reference.md: tablerow, tablerowloop), docs/environment.md (tablerow "
        "contributes to the loop iteration count) and, for the exact atoms and the break order, the reference implementation the project documents itself as "
        "output-compatible with (docs/known_issues.md; CHANGES 1.12.2: interrupts in tablerow follow Shopify/liquid #1818)",
        "unspecified (not judged): cols <= 0 or not an integer (cols:nil), negative limit/offset, `offset: continue`, `reversed`, hashes and strings as the iterable, "
        "floats as arguments",
        "forloop read in a tablerow that is not inside a for renders as nothing (default Undefined)",
    ]
    return ck.finish()


def replay(path):
    fresh_repo_imports()
    d = json.load(open(path))["detail"]
    env = harness.make_env(loop_limit=d.get("loop_iteration_limit"))
    data = d["data"]
    if isinstance(data.get("c"), str) and data["c"].startswith("range("):
        data["c"] = eval(data["c"], {"range": range})      # a range object is stored by its repr
    rc = 0
    for how in ("sync", "async"):
        o = harness.run(env, d["source"], data, how)
        got = o.get("out", o.get("err"))
        exp = d["expected"] if d["expected_outcome"] == "done" else "LoopIterationLimitError"
        print(how, "OK" if got == exp else "DIFFERS", repr(got), "expected", repr(exp))
        rc |= got != exp
    return int(rc)
