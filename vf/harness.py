"""Concretised programs are run against the real library here.

An *outcome* is what a caller can observe: {"out": text} or {"err": class name}
(+ "liquid": False when the exception does not derive from LiquidError)."""
from __future__ import annotations

import asyncio
import warnings

_env_cache: dict = {}


def make_env(*, extra=True, mode="strict", loop_limit=None, output_limit=None, ns_limit=None,
             depth_limit=None, nesting_limit=None, autoescape=False, undefined="Undefined",
             templates=None, flags=(), globals=None, loader=None, strict_filters=True, **kw):
    import liquid
    from liquid import Environment, DictLoader, Mode
    from liquid import undefined as U
    attrs = {}
    if loop_limit is not None:
        attrs["loop_iteration_limit"] = loop_limit
    if output_limit is not None:
        attrs["output_stream_limit"] = output_limit
    if ns_limit is not None:
        attrs["local_namespace_limit"] = ns_limit
    if depth_limit is not None:
        attrs["context_depth_limit"] = depth_limit
    if nesting_limit is not None:
        attrs["block_nesting_limit"] = nesting_limit
    for f in flags:
        attrs[f] = True
    cls = type("VEnv", (Environment,), attrs)
    und = {"Undefined": U.Undefined, "StrictUndefined": U.StrictUndefined,
           "FalsyStrictUndefined": U.FalsyStrictUndefined,
           "StrictDefaultUndefined": U.StrictDefaultUndefined,
           "DebugUndefined": U.DebugUndefined}[undefined]
    return cls(extra=extra, tolerance={"strict": Mode.STRICT, "warn": Mode.WARN, "lax": Mode.LAX}[mode],
               loader=loader if loader is not None else DictLoader(dict(templates or {})),
               autoescape=autoescape, undefined=und, globals=globals, strict_filters=strict_filters, **kw)


def classify(exc: BaseException) -> dict:
    from liquid.exceptions import LiquidError
    if isinstance(exc, LiquidError):
        return {"err": type(exc).__name__, "liquid": True, "mro": [c.__name__ for c in type(exc).__mro__[:-2]],
                "detail": (str(exc)[:120] + " <- " + repr(exc.__cause__)[:160]) if type(exc).__name__ == "LiquidError" else ""}
    return {"err": type(exc).__name__, "liquid": False, "msg": str(exc)[:200]}


def parse(env, src, **kw):
    try:
        return env.from_string(src, **kw), None
    except RecursionError as e:   # must be looked at before Exception subclasses are lumped
        return None, classify(e)
    except Exception as e:
        return None, classify(e)


def render(tmpl, data, how="sync"):
    """Render; count warnings; return outcome dict."""
    with warnings.catch_warnings(record=True) as w:
        warnings.simplefilter("always")
        try:
            if how == "sync":
                out = tmpl.render(**data)
            else:
                out = asyncio.run(tmpl.render_async(**data))
            o = {"out": out}
        except Exception as e:
            o = classify(e)
    o["warnings"] = len(w)
    return o


def run(env, src, data, how="sync"):
    with warnings.catch_warnings(record=True) as w:
        warnings.simplefilter("always")
        t, err = parse(env, src)
    if err:
        err["phase"] = "parse"
        err["warnings"] = len(w)
        return err
    o = render(t, data, how)
    o["warnings"] += len(w)
    return o


def same(a: dict, b: dict) -> bool:
    """Equality of outcomes as a caller sees them: same output or same error class."""
    if "out" in a or "out" in b:
        return a.get("out") == b.get("out") and "out" in a and "out" in b
    return a.get("err") == b.get("err")
