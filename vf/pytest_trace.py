"""pytest plugin (-p vf.pytest_trace): record ContextTrace events of every public render call made by the repository's own tests.
Only active when LIQUID_VERIF=1; writes the traces to $VERIF_TRACE_OUT at the end of the session."""
import json
import os

import pytest

from . import instrument

REC = instrument.ContextRecorder()


def pytest_configure(config):
    if instrument.ENABLED:
        instrument.install_context(REC)


@pytest.hookimpl(hookwrapper=True)
def pytest_runtest_call(item):
    REC.label = item.nodeid
    yield
    REC.label = ""
    if REC.cur is not None:      # a render that never returned to its wrapper (should not happen)
        REC.cur = None
        REC.depth = 0


def pytest_sessionfinish(session, exitstatus):
    out = os.environ.get("VERIF_TRACE_OUT")
    if out and instrument.ENABLED:
        with open(out, "w") as f:
            json.dump({"traces": REC.traces, "dropped": getattr(REC, "dropped", 0)}, f)
