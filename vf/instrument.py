"""LIQUID_VERIF-guarded instrumentation: wrappers installed from the harness
around methods of the library under /repo (no source edit needed; add-only by
construction).  A missing wrap target is a machinery error, not silence."""
from __future__ import annotations

import functools
import os
import threading

from .tlcrun import MachineryError

ENABLED = os.environ.get("LIQUID_VERIF") == "1"
_installed: dict = {}


def wrap(owner, name: str, maker) -> None:
    """Replace owner.name by maker(original). Idempotent per (owner, name, tag)."""
    if not ENABLED:
        raise MachineryError("instrumentation requested with LIQUID_VERIF guard off")
    if name not in owner.__dict__:
        raise MachineryError(f"wrap target missing: {owner.__name__}.{name}")
    key = (owner, name)
    if key in _installed:
        return
    orig = owner.__dict__[name]
    new = maker(orig)
    functools.update_wrapper(new, orig)
    _installed[key] = orig
    setattr(owner, name, new)


def unwrap_all() -> None:
    for (owner, name), orig in list(_installed.items()):
        setattr(owner, name, orig)
    _installed.clear()


# ---------------------------------------------------------------------------
# LRU cache events (C24, C23).  Logged from the *base class* methods: the
# thread-safe subclass calls them through super() while holding its lock, so
# the event and its per-cache sequence number are taken at the linearization
# point.
class LRURecorder:
    def __init__(self):
        self.events: dict = {}      # id(cache) -> list of events
        self.tls = threading.local()
        self.threaded = False       # True while several threads use the caches

    def log(self, cache, op, k, v, ret):
        lock = getattr(cache, "_lock", None)
        if self.threaded and lock is not None and op == "len":
            # len() is not overridden to take the lock: its linearization point cannot be observed
            # from outside, so under threads it is not logged rather than logged at a guessed position
            return None
        evs = self.events.setdefault(id(cache), [])
        try:
            n = self.orig_len(cache)                 # the unwrapped __len__ (no private attribute of the cache is read)
        except Exception:                            # noqa: BLE001
            n = -1
        locked = True                                # unknown lock type (e.g. RLock has no .locked()): not judged
        if lock is not None and hasattr(lock, "locked"):
            locked = bool(lock.locked())
        e = {"op": op, "k": k, "v": v, "ret": ret, "len": n,
             "locked": locked if lock is not None else False,
             "seq": len(evs) + 1, "thread": threading.get_ident()}
        evs.append(e)
        self.tls.last = e
        return e


def install_lru(rec: LRURecorder, sval=str) -> None:
    from liquid.utils.lru_cache import LRUCache
    rec.orig_len = LRUCache.__dict__["__len__"] if "__len__" in LRUCache.__dict__ else len

    def mk_get(orig):
        def f(self, key):
            try:
                r = orig(self, key)
            except KeyError:
                rec.log(self, "get", sval(key), "", ["!KeyError"])
                raise
            rec.log(self, "get", sval(key), "", [sval(r)])
            return r
        return f

    def mk_set(orig):
        def f(self, key, value):
            r = orig(self, key, value)
            rec.log(self, "set", sval(key), sval(value), ["!None"])
            return r
        return f

    def mk_del(orig):
        def f(self, key):
            try:
                r = orig(self, key)
            except KeyError:
                rec.log(self, "del", sval(key), "", ["!KeyError"])
                raise
            rec.log(self, "del", sval(key), "", ["!None"])
            return r
        return f

    def mk_contains(orig):
        def f(self, key):
            r = orig(self, key)
            rec.log(self, "contains", sval(key), "", ["!True" if r else "!False"])
            return r
        return f

    def mk_len(orig):
        def f(self):
            r = orig(self)
            rec.log(self, "len", "", "", [str(r)])
            return r
        return f

    def mk_list(what):
        def mk(orig):
            def f(self):
                r = orig(self)
                # the listing's content is filled in by whoever consumes it (ret = what the caller saw)
                rec.log(self, what, "", "", None)
                return r
            return f
        return mk

    wrap(LRUCache, "__getitem__", mk_get)
    wrap(LRUCache, "__setitem__", mk_set)
    wrap(LRUCache, "__delitem__", mk_del)
    wrap(LRUCache, "__contains__", mk_contains)
    wrap(LRUCache, "__len__", mk_len)
    wrap(LRUCache, "keys", mk_list("keys"))
    wrap(LRUCache, "values", mk_list("values"))
    wrap(LRUCache, "items", mk_list("items"))
    wrap(LRUCache, "__iter__", mk_list("iter"))


# ---------------------------------------------------------------------------
# Render-context events (ContextTrace.tla).  One trace per public render call:
# contexts and buffers are numbered in order of appearance inside the trace.
class ContextRecorder:
    def __init__(self):
        self.traces: list = []       # finished traces
        self.cur = None              # trace being recorded (dict) or None
        self.depth = 0               # nesting of public render calls (only the outermost one opens a trace)
        self.label = ""

    @staticmethod
    def _owner():
        import asyncio
        try:
            t = asyncio.current_task()
        except RuntimeError:
            t = None
        return (threading.get_ident(), id(t) if t is not None else 0)

    def begin(self, template):
        self.depth += 1
        if self.depth > 1:
            if self.cur is not None and self._owner() != self.cur["_owner"]:
                self.cur["_mixed"] = True      # another task / thread renders at the same time: events would interleave
            return
        env = template.env
        lim = lambda v: -1 if v is None else int(v)
        self.cur = {"N": lim(env.loop_iteration_limit), "L": lim(env.output_stream_limit), "M": lim(env.local_namespace_limit),
                    "D": lim(env.context_depth_limit), "mode": env.mode.name.lower(),
                    "label": self.label, "ev": [], "_ctx": {}, "_buf": {}, "_owner": self._owner(), "_mixed": False}

    def end(self, status):
        self.depth -= 1
        if self.depth == 0 and self.cur is not None:
            self.ev("End", o=status)
            t = self.cur
            self.cur = None
            t.pop("_ctx"); t.pop("_buf"); t.pop("_owner")
            mixed = t.pop("_mixed")
            if len(t["ev"]) < 4000 and not mixed:          # very long renders (performance tests) and interleaved renders are not validated
                self.traces.append(t)
            else:
                self.dropped = getattr(self, "dropped", 0) + 1

    def cid(self, ctx):
        m = self.cur["_ctx"]
        if id(ctx) not in m:
            m[id(ctx)] = (len(m) + 1, ctx)        # the object is kept alive for the trace: id() values are not reused
        return m[id(ctx)][0]

    def bid(self, buf):
        m = self.cur["_buf"]
        if id(buf) not in m:
            m[id(buf)] = (len(m) + 1, buf)
        return m[id(buf)][0]

    def ev(self, e, c=0, n=0, f=False, o="", b=0, p=0):
        if self.cur is not None and self._owner() != self.cur["_owner"]:
            self.cur["_mixed"] = True
        if self.cur is not None:
            self.cur["ev"].append({"e": e, "c": c, "n": int(n), "f": bool(f), "o": o, "b": b, "p": p})


def install_context(rec: ContextRecorder) -> None:
    import contextlib
    from liquid.context import RenderContext
    from liquid.template import BoundTemplate
    from liquid.output import LimitedStringIO
    from liquid.environment import Environment
    from liquid.exceptions import LoopIterationLimitError, OutputStreamLimitError, ContextDepthError, LocalNamespaceLimitError

    def mk_render(orig):
        def f(self, *a, **k):
            rec.begin(self)
            st = "ok"
            try:
                return orig(self, *a, **k)
            except BaseException as e:
                st = type(e).__name__
                raise
            finally:
                rec.end(st)
        return f

    def mk_render_async(orig):
        async def f(self, *a, **k):
            rec.begin(self)
            st = "ok"
            try:
                return await orig(self, *a, **k)
            except BaseException as e:
                st = type(e).__name__
                raise
            finally:
                rec.end(st)
        return f

    def mk_init(orig):
        def f(self, template, *a, **k):
            orig(self, template, *a, **k)
            if rec.cur is not None:
                parent = k.get("parent_context")
                rec.ev("Ctx", c=rec.cid(self), p=rec.cid(parent) if parent is not None else 0, n=self.loop_iteration_carry)
        return f

    def mk_copy(orig):
        def f(self, namespace, disabled_tags=None, carry_loop_iterations=False, template=None, block_scope=False):
            ctx = orig(self, namespace, disabled_tags=disabled_tags, carry_loop_iterations=carry_loop_iterations, template=template, block_scope=block_scope)
            if rec.cur is not None:
                rec.ev("Copy", c=rec.cid(ctx), p=rec.cid(self), f=carry_loop_iterations, n=ctx.loop_iteration_carry)
                rec.ev("CopyDepth", c=rec.cid(ctx), p=rec.cid(self), n=ctx._copy_depth)
                if self.env.local_namespace_limit is not None:
                    rec.ev("CopyNs", c=rec.cid(ctx), p=rec.cid(self), n=ctx.local_namespace_size_carry)
            return ctx
        return f

    def mk_extend(orig):
        @contextlib.contextmanager
        def f(self, namespace, template=None):
            before = self.scope.size()
            cm = orig(self, namespace, template=template)
            try:
                c = cm.__enter__()
            except ContextDepthError:
                if rec.cur is not None:
                    rec.ev("PushRefused", c=rec.cid(self), n=before)
                raise
            with _entered(cm, c):
                if rec.cur is not None:
                    rec.ev("Push", c=rec.cid(self), n=self.scope.size())
                try:
                    yield c
                finally:
                    if rec.cur is not None:
                        rec.ev("Pop", c=rec.cid(self), n=self.scope.size() - 1)
        return f

    def mk_assign(orig):
        def f(self, key, val):
            import sys as _sys
            try:
                orig(self, key, val)
            except LocalNamespaceLimitError:
                if rec.cur is not None:
                    rec.ev("Assign", c=rec.cid(self), n=_measure(self), o="raise")
                raise
            if rec.cur is not None and self.env.local_namespace_limit is not None:
                rec.ev("Assign", c=rec.cid(self), n=_measure(self), o="ok")
        return f

    def _measure(ctx):
        """what the property talks about, measured independently of get_size_of_locals: sizes of this context's locals"""
        import sys as _sys
        return sum(_sys.getsizeof(v, 1) for v in ctx.locals.values())

    class _entered:
        """context manager around an already entered context manager"""
        def __init__(self, cm, val):
            self.cm, self.val = cm, val

        def __enter__(self):
            return self.val

        def __exit__(self, *exc):
            return self.cm.__exit__(*exc)

    def mk_loop(orig):
        @contextlib.contextmanager
        def f(self, namespace, forloop):
            with orig(self, namespace, forloop) as c:
                if rec.cur is not None:
                    rec.ev("LoopEnter", c=rec.cid(self), n=forloop.length)
                try:
                    yield c
                finally:
                    if rec.cur is not None:
                        rec.ev("LoopExit", c=rec.cid(self))
        return f

    def mk_carry(orig):
        @contextlib.contextmanager
        def f(self, length):
            with orig(self, length):
                if rec.cur is not None:
                    rec.ev("CarryEnter", c=rec.cid(self), n=length)
                try:
                    yield
                finally:
                    if rec.cur is not None:
                        rec.ev("CarryExit", c=rec.cid(self))
        return f

    def mk_check(orig):
        def f(self, length=1):
            try:
                orig(self, length)
            except LoopIterationLimitError:
                if rec.cur is not None:
                    rec.ev("Check", c=rec.cid(self), n=length, o="raise")
                raise
            if rec.cur is not None:
                rec.ev("Check", c=rec.cid(self), n=length, o="ok")
        return f

    def mk_getbuf(orig):
        def f(self, buf=None):
            new = orig(self, buf)
            if rec.cur is not None and isinstance(new, LimitedStringIO):
                rec.ev("Buf", b=rec.bid(new), p=rec.bid(buf) if isinstance(buf, LimitedStringIO) else 0, n=new.limit)
            return new
        return f

    def mk_topbuf(orig):
        def f(self):
            new = orig(self)
            if rec.cur is not None and isinstance(new, LimitedStringIO):
                rec.ev("Buf", b=rec.bid(new), p=0, n=new.limit)
            return new
        return f

    def mk_write(orig):
        def f(self, s):
            n = len(s.encode("utf-8")) if s else 0
            try:
                r = orig(self, s)
            except OutputStreamLimitError:
                if rec.cur is not None:
                    rec.ev("Write", b=rec.bid(self), n=n, o="raise")
                raise
            if rec.cur is not None and n:
                rec.ev("Write", b=rec.bid(self), n=n, o="ok")
            return r
        return f

    def mk_error(orig):
        def f(self, exc, token=None):
            import warnings
            with warnings.catch_warnings(record=True) as w:
                warnings.simplefilter("always")
                try:
                    r = orig(self, exc, token=token)
                except BaseException:
                    if rec.cur is not None:
                        rec.ev("Error", o="raise")
                    raise
            for x in w:                       # hand the warning on to whoever is listening
                warnings.warn_explicit(x.message, x.category, x.filename, x.lineno)
            if rec.cur is not None:
                rec.ev("Error", o="warn" if w else "ignore")
            return r
        return f

    wrap(BoundTemplate, "render", mk_render)
    wrap(BoundTemplate, "render_async", mk_render_async)
    wrap(BoundTemplate, "_get_buffer", mk_topbuf)
    wrap(RenderContext, "__init__", mk_init)
    wrap(RenderContext, "copy", mk_copy)
    wrap(RenderContext, "extend", mk_extend)
    wrap(RenderContext, "assign", mk_assign)
    wrap(RenderContext, "loop", mk_loop)
    wrap(RenderContext, "carry_loop_iterations", mk_carry)
    wrap(RenderContext, "raise_for_loop_limit", mk_check)
    wrap(RenderContext, "get_buffer", mk_getbuf)
    wrap(LimitedStringIO, "write", mk_write)
    wrap(Environment, "error", mk_error)
