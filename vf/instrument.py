"""LIQUID_VERIF-guarded instrumentation: wrappers installed from the harness
around methods of the library under /repo (no source edit needed; add-only by
construction).  A missing wrap target is a machinery error, not silence."""
from __future__ import annotations

import functools
import os
import threading

from .tlcrun import MachineryError

ENABLED = os.environ.get("LIQUID_VERIF") == "1"
_installed: dict = {}


def wrap(owner, name: str, maker) -> None:
    """Replace owner.name by maker(original). Idempotent per (owner, name, tag)."""
    if not ENABLED:
        raise MachineryError("instrumentation requested with LIQUID_VERIF guard off")
    if name not in owner.__dict__:
        raise MachineryError(f"wrap target missing: {owner.__name__}.{name}")
    key = (owner, name)
    if key in _installed:
        return
    orig = owner.__dict__[name]
    new = maker(orig)
    functools.update_wrapper(new, orig)
    _installed[key] = orig
    setattr(owner, name, new)


def unwrap_all() -> None:
    for (owner, name), orig in list(_installed.items()):
        setattr(owner, name, orig)
    _installed.clear()


# ---------------------------------------------------------------------------
# LRU cache events (C24, C23).  Logged from the *base class* methods: the
# thread-safe subclass calls them through super() while holding its lock, so
# the event and its per-cache sequence number are taken at the linearization
# point.
class LRURecorder:
    def __init__(self):
        self.events: dict = {}      # id(cache) -> list of events
        self.tls = threading.local()
        self.threaded = False       # True while several threads use the caches

    def log(self, cache, op, k, v, ret):
        lock = getattr(cache, "_lock", None)
        if self.threaded and lock is not None and op == "len":
            # len() is not overridden to take the lock: its linearization point cannot be observed
            # from outside, so under threads it is not logged rather than logged at a guessed position
            return None
        evs = self.events.setdefault(id(cache), [])
        e = {"op": op, "k": k, "v": v, "ret": ret, "len": len(cache._cache),
             "locked": bool(lock.locked()) if lock is not None else False,
             "seq": len(evs) + 1, "thread": threading.get_ident()}
        evs.append(e)
        self.tls.last = e
        return e


def install_lru(rec: LRURecorder, sval=str) -> None:
    from liquid.utils.lru_cache import LRUCache

    def mk_get(orig):
        def f(self, key):
            try:
                r = orig(self, key)
            except KeyError:
                rec.log(self, "get", sval(key), "", ["!KeyError"])
                raise
            rec.log(self, "get", sval(key), "", [sval(r)])
            return r
        return f

    def mk_set(orig):
        def f(self, key, value):
            r = orig(self, key, value)
            rec.log(self, "set", sval(key), sval(value), ["!None"])
            return r
        return f

    def mk_del(orig):
        def f(self, key):
            try:
                r = orig(self, key)
            except KeyError:
                rec.log(self, "del", sval(key), "", ["!KeyError"])
                raise
            rec.log(self, "del", sval(key), "", ["!None"])
            return r
        return f

    def mk_contains(orig):
        def f(self, key):
            r = orig(self, key)
            rec.log(self, "contains", sval(key), "", ["!True" if r else "!False"])
            return r
        return f

    def mk_len(orig):
        def f(self):
            r = orig(self)
            rec.log(self, "len", "", "", [str(r)])
            return r
        return f

    def mk_list(what):
        def mk(orig):
            def f(self):
                r = orig(self)
                # the listing's content is filled in by whoever consumes it (ret = what the caller saw)
                rec.log(self, what, "", "", None)
                return r
            return f
        return mk

    wrap(LRUCache, "__getitem__", mk_get)
    wrap(LRUCache, "__setitem__", mk_set)
    wrap(LRUCache, "__delitem__", mk_del)
    wrap(LRUCache, "__contains__", mk_contains)
    wrap(LRUCache, "__len__", mk_len)
    wrap(LRUCache, "keys", mk_list("keys"))
    wrap(LRUCache, "values", mk_list("values"))
    wrap(LRUCache, "items", mk_list("items"))
    wrap(LRUCache, "__iter__", mk_list("iter"))
