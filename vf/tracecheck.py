"""Batched trace validation: many traces, one JVM."""
from __future__ import annotations

import json
import os
import re

from .tlcrun import MachineryError, run_tlc, scratch_dir, SPEC


def tla_set(xs):
    return "{" + ", ".join(json.dumps(str(x)) for x in sorted(set(xs))) + "}"

_ACC = re.compile(r'^<<"ACCEPT", (\d+)>>', re.M)
_MIS = re.compile(r'^<<"MISMATCH", (\d+), (\d+), "(\w+)"(.*)>>$', re.M)


def validate(module: str, cfg: str, traces: list, *, diag_cfg: str | None = None, timeout: int = 900,
             workers: int = 1, env: dict | None = None, consts: dict | None = None):
    """Returns (accepted_ids:set[int], diagnostics:{tid:[(l, clause, rest)]}, tlc_result). tids are 0-based."""
    if not traces:
        raise MachineryError("no traces to validate (vacuous)")
    d = scratch_dir("trace")
    path = os.path.join(d, "traces.json")
    gen = []
    if consts:
        # literal constants in a generated cfg: `K <- TraceK` overrides are re-evaluated on every use
        def inst(c):
            txt = open(os.path.join(SPEC, c)).read()
            for k, v in consts.items():
                txt = txt.replace("@" + k + "@", v)
            out = os.path.join(os.path.dirname(c), ".gen_%d_" % os.getpid() + os.path.basename(c))
            with open(os.path.join(SPEC, out), "w") as f:
                f.write(txt)
            gen.append(os.path.join(SPEC, out))
            return out
        cfg = inst(cfg)
        diag_cfg = inst(diag_cfg) if diag_cfg else None
    try:
        with open(path, "w") as f:
            json.dump(traces, f)
        e = {"TRACE_FILE": path}
        e.update(env or {})
        r = run_tlc(module, cfg, workers=workers, timeout=timeout, env=e)
        if r.violated:
            raise MachineryError(f"trace spec {module} invariant {r.violated} violated while validating:\n" + r.out[-2500:])
        acc = {int(m.group(1)) - 1 for m in _ACC.finditer(r.out)}
        rejected = [i for i in range(len(traces)) if i not in acc]
        diags: dict = {}
        if rejected and diag_cfg:
            sub = [traces[i] for i in rejected[:50]]
            with open(path, "w") as f:
                json.dump(sub, f)
            r2 = run_tlc(module, diag_cfg, workers=1, timeout=timeout, env=e)
            for m in _MIS.finditer(r2.out):
                tid = rejected[int(m.group(1)) - 1]
                diags.setdefault(tid, []).append((int(m.group(2)), m.group(3), m.group(4).strip(", ")))
        return acc, diags, r
    finally:
        import shutil
        shutil.rmtree(d, ignore_errors=True)
        for g in gen:
            os.path.exists(g) and os.unlink(g)


def relate(observations: list, timeout: int = 900):
    """Evaluate spec/Relations.tla on every observation record. Returns (rejected indexes (0-based), tlc result)."""
    if not observations:
        raise MachineryError("no observations to relate (vacuous)")
    d = scratch_dir("rel")
    path = os.path.join(d, "obs.json")
    try:
        with open(path, "w") as f:
            json.dump(observations, f)
        r = run_tlc("Relations", "cfg/Relations.cfg", workers=1, timeout=timeout, env={"TRACE_FILE": path})
        acc = {int(m.group(1)) - 1 for m in _ACC.finditer(r.out)}
        rej = {int(m.group(1)) - 1 for m in re.finditer(r'^<<"REJECT", (\d+)>>', r.out, re.M)}
        if len(acc) + len(rej) != len(observations):
            raise MachineryError(f"Relations.tla judged {len(acc) + len(rej)} of {len(observations)} observations:\n" + r.out[-2000:])
        return sorted(rej), r
    finally:
        import shutil
        shutil.rmtree(d, ignore_errors=True)
