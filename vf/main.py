from __future__ import annotations

import argparse
import importlib
import os
import sys
import traceback

from .core import ROOT
from .tlcrun import MachineryError


def main() -> int:
    ap = argparse.ArgumentParser()
    ap.add_argument("prop")
    ap.add_argument("--tier", default=os.environ.get("VERIF_TIER", "quick"), choices=["quick", "thorough"])
    ap.add_argument("--replay")
    a = ap.parse_args()
    if a.prop == "--setup" or a.prop == "setup":
        from . import setup
        return setup.main()
    pid = a.prop.upper()
    try:
        mod = importlib.import_module("vf.props." + pid.lower())
    except ImportError:
        traceback.print_exc()
        return 2
    try:
        if a.replay:
            return mod.replay(a.replay)
        return mod.run(a.tier)
    except MachineryError as e:
        print("MACHINERY-ERROR:", e, file=sys.stderr)
        return 2
    except Exception:
        traceback.print_exc()
        return 2


if __name__ == "__main__":
    sys.exit(main())
