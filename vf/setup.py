"""./check setup : verify the toolchain is usable offline; nothing is fetched."""
import os, shutil, subprocess, sys
from .tlcrun import JAR, SCRATCH, SPEC


def main() -> int:
    ok = True
    for j in JAR.split(":"):
        if not os.path.exists(j):
            print("missing", j); ok = False
    if shutil.which("java") is None:
        print("java missing"); ok = False
    shutil.rmtree(SCRATCH, ignore_errors=True)
    os.makedirs(SCRATCH, exist_ok=True)
    p = subprocess.run(["java", "-cp", JAR, "tla2sany.SANY", "LRUCache.tla"], cwd=SPEC, capture_output=True, text=True)
    if p.returncode != 0 or "error" in p.stdout.lower() and "Semantic errors" in p.stdout:
        print(p.stdout[-2000:]); ok = False
    try:
        sys.path.insert(0, os.environ.get("VERIF_REPO", "/repo"))
        import liquid  # noqa
    except Exception as e:
        print("cannot import liquid from /repo:", e); ok = False
    print("setup", "ok" if ok else "FAILED")
    return 0 if ok else 2
